(* C11/Model.v — executable model of onnx_ir._linked_list.DoublyLinkedSet and of the generator
   based iterators (__iter__/__reversed__) used by Graph/Function iteration.

   Level of the model ("live sequence + frozen tombstone links", DESIGN §6 C11):
     live : the sequence of live link boxes (box id, value), root excluded.  The prev/next pointers
            of LIVE boxes are derived from this sequence (erase and _insert_one_after only ever
            rewrite pointers of live neighbours / the root).
     tomb : for every erased box, in erase order (oldest first), its FROZEN (prev, next) pointers
            (_LinkBox.erase keeps self.prev/self.next and only sets value=None; no code path writes
            an erased box again).
     nid  : allocation counter: every _insert_one_after that inserts creates a new _LinkBox.
     slen : the _length field (maintained separately by the code).
   A cursor is a suspended generator: Fresh (created, body not started: `box = self._root.next` is
   evaluated at the first next()), Parked b (suspended at `yield box.value` with box = b; on resume
   the code evaluates `box = box.next` — b.next is read AT RESUME TIME), Done (returned).
   Not in the model: the value -> box dict (derived: find_box), the owning_list check (one list only;
   boxes reachable from self._root are always created with owner self), None values (TypeError raised
   before any mutation), slices (tuple(self)[slice]). *)
From Coq Require Import List Arith ZArith Bool Lia.
From IRV Require Import Base.Exn.
Import ListNotations.

Definition elt := nat.
Definition bid := nat.
Inductive ref := Root | B (b : bid).
Definition ref_eqb (a b : ref) : bool :=
  match a, b with Root, Root => true | B x, B y => x =? y | _, _ => false end.

Definition boxes := list (bid * elt).

(* ---------- the live sequence *)
Fixpoint from (l : boxes) (b : bid) : boxes :=          (* suffix starting at box b *)
  match l with [] => [] | p :: tl => if fst p =? b then l else from tl b end.
Definition after (l : boxes) (b : bid) : boxes := tl (from l b).
Definition head_ref (l : boxes) : ref := match l with [] => Root | p :: _ => B (fst p) end.
Definition livb (l : boxes) (b : bid) : bool := existsb (fun p : bid * elt => fst p =? b) l.
Definition succ_ref (l : boxes) (b : bid) : ref := head_ref (after l b).      (* b.next of a live box *)
Definition pred_ref (l : boxes) (b : bid) : ref := succ_ref (rev l) b.        (* b.prev of a live box *)
Definition last_ref (l : boxes) : ref := head_ref (rev l).                    (* root.prev *)
Definition rm_box (b : bid) (l : boxes) : boxes := filter (fun p : bid * elt => negb (fst p =? b)) l.
Fixpoint val_of (l : boxes) (b : bid) : option elt :=
  match l with [] => None | p :: tl => if fst p =? b then Some (snd p) else val_of tl b end.
Fixpoint find_box (l : boxes) (x : elt) : option bid :=   (* _value_ids_to_boxes lookup *)
  match l with [] => None | p :: tl => if snd p =? x then Some (fst p) else find_box tl x end.
Fixpoint ins_after_box (l : boxes) (b : bid) (bx : bid * elt) : boxes :=
  match l with
  | [] => []
  | p :: tl => if fst p =? b then p :: bx :: tl else p :: ins_after_box tl b bx
  end.
Definition ins_after_ref (l : boxes) (r : ref) (bx : bid * elt) : boxes :=
  match r with Root => bx :: l | B b => ins_after_box l b bx end.
Definition val_ref (l : boxes) (r : ref) : option elt :=
  match r with Root => None | B b => val_of l b end.

(* ---------- one direction of the structure: what an iterator can see *)
Record dstate := mkD { dl : boxes; dt : list (bid * ref) }.
Fixpoint lookup_t (t : list (bid * ref)) (b : bid) : option ref :=
  match t with [] => None | e :: tl => if fst e =? b then Some (snd e) else lookup_t tl b end.

Inductive cursor := Fresh | Parked (b : bid) | Done.

(* the `while box is not self._root` loop from a given box; one unit of fuel per erased box skipped.
   None = the model ran out of fuel or followed a pointer to an unknown box (proved unreachable). *)
Fixpoint scan (ds : dstate) (fuel : nat) (r : ref) : option (cursor * option elt) :=
  match r with
  | Root => Some (Done, None)
  | B b =>
      match val_of (dl ds) b with
      | Some x => Some (Parked b, Some x)
      | None =>
          match fuel with
          | 0 => None
          | S f => match lookup_t (dt ds) b with Some r' => scan ds f r' | None => None end
          end
      end
  end.
(* `box = box.next` evaluated at resume time *)
Definition rd_next (ds : dstate) (b : bid) : option ref :=
  if livb (dl ds) b then Some (succ_ref (dl ds) b) else lookup_t (dt ds) b.
(* next(it): Some (c', Some x) = yields x ; Some (Done, None) = StopIteration *)
Definition cstep (ds : dstate) (c : cursor) : option (cursor * option elt) :=
  match c with
  | Done => Some (Done, None)
  | Fresh => scan ds (length (dt ds)) (head_ref (dl ds))
  | Parked b => match rd_next ds b with Some r => scan ds (length (dt ds)) r | None => None end
  end.

(* run a cursor to exhaustion without edits (list(it)); fuel = number of next() calls allowed *)
Fixpoint drain (ds : dstate) (fuel : nat) (c : cursor) : option (list elt) :=
  match fuel with
  | 0 => None
  | S f =>
      match cstep ds c with
      | None => None
      | Some (_, None) => Some []
      | Some (c', Some x) => match drain ds f c' with Some r => Some (x :: r) | None => None end
      end
  end.

(* ---------- the whole structure *)
Record st := mkS { live : boxes; tomb : list (bid * (ref * ref)); nid : bid; slen : nat }.
Definition empty : st := mkS [] [] 0 0.
Definition to_list (s : st) : list elt := map snd (live s).

Definition view (fwd : bool) (s : st) : dstate :=
  if fwd then mkD (live s) (map (fun e => (fst e, snd (snd e))) (tomb s))
  else mkD (rev (live s)) (map (fun e => (fst e, fst (snd e))) (tomb s)).

(* _LinkBox.erase + the bookkeeping of DoublyLinkedSet.remove *)
Definition erase_box (b : bid) (s : st) : st :=
  mkS (rm_box b (live s))
      (tomb s ++ [(b, (pred_ref (live s) b, succ_ref (live s) b))])
      (nid s) (pred (slen s)).
(* the pointer surgery of _insert_one_after after a fresh box has been created *)
Definition ins_box (r : ref) (x : elt) (s : st) : st :=
  mkS (ins_after_ref (live s) r (nid s, x)) (tomb s) (S (nid s)) (S (slen s)).

Definition insert_one_after (r : ref) (x : elt) (s : st) : st * ref :=
  if option_eqb Nat.eqb (val_ref (live s) r) (Some x) then (s, r)       (* box.value is new_value *)
  else
    let s1 := match find_box (live s) x with Some b => erase_box b s | None => s end in
    (ins_box r x s1, B (nid s1)).
Fixpoint insert_many_after (r : ref) (xs : list elt) (s : st) : st :=
  match xs with
  | [] => s
  | x :: t => let '(s', r') := insert_one_after r x s in insert_many_after r' t s'
  end.

Inductive edit :=
| Append (x : elt) | Extend (xs : list elt)
| InsAfter (a : elt) (xs : list elt) | InsBefore (a : elt) (xs : list elt)
| Remove (x : elt).

Definition append (x : elt) (s : st) : st := fst (insert_one_after (last_ref (live s)) x s).
Definition extend (xs : list elt) (s : st) : st := fold_left (fun s x => append x s) xs s.

Definition apply_edit (e : edit) (s : st) : st * res unit :=
  match e with
  | Append x => (append x s, Ok tt)
  | Extend xs => (extend xs s, Ok tt)
  | Remove x =>
      match find_box (live s) x with
      | None => (s, Raise ValueError)
      | Some b => (erase_box b s, Ok tt)
      end
  | InsAfter a xs =>
      match find_box (live s) a with
      | None => (s, Raise ValueError)
      | Some b => (insert_many_after (B b) xs s, Ok tt)
      end
  | InsBefore a xs =>
      match find_box (live s) a with
      | None => (s, Raise ValueError)
      | Some b => (insert_many_after (pred_ref (live s) b) xs s, Ok tt)
      end
  end.

(* ---------- the plain-list specification of the edits (what "the current sequence" must be) *)
Definition l_remove (x : elt) (l : list elt) : list elt := filter (fun y => negb (y =? x)) l.
Fixpoint l_ins_after (a x : elt) (l : list elt) : list elt :=
  match l with [] => [] | y :: t => if y =? a then y :: x :: t else y :: l_ins_after a x t end.
Definition l_ins_at (p : option elt) (x : elt) (l : list elt) : list elt :=
  match p with None => x :: l | Some a => l_ins_after a x l end.
(* insert x right after p (None = at the front): inserting an element after itself is a no-op, an
   element already present is moved *)
Definition l_one (p : option elt) (x : elt) (l : list elt) : list elt * option elt :=
  if option_eqb Nat.eqb p (Some x) then (l, p) else (l_ins_at p x (l_remove x l), Some x).
Fixpoint l_many (p : option elt) (xs : list elt) (l : list elt) : list elt :=
  match xs with [] => l | x :: t => let '(l', p') := l_one p x l in l_many p' t l' end.
Definition l_last (l : list elt) : option elt := match rev l with [] => None | y :: _ => Some y end.
Fixpoint l_pred (a : elt) (prev : option elt) (l : list elt) : option elt :=
  match l with [] => None | y :: t => if y =? a then prev else l_pred a (Some y) t end.
Definition l_append (x : elt) (l : list elt) : list elt := fst (l_one (l_last l) x l).
Definition l_mem (x : elt) (l : list elt) : bool := existsb (Nat.eqb x) l.
Definition l_apply (e : edit) (l : list elt) : list elt * res unit :=
  match e with
  | Append x => (l_append x l, Ok tt)
  | Extend xs => (fold_left (fun l x => l_append x l) xs l, Ok tt)
  | Remove x => if l_mem x l then (l_remove x l, Ok tt) else (l, Raise ValueError)
  | InsAfter a xs => if l_mem a l then (l_many (Some a) xs l, Ok tt) else (l, Raise ValueError)
  | InsBefore a xs => if l_mem a l then (l_many (l_pred a None l) xs l, Ok tt) else (l, Raise ValueError)
  end.

(* ---------- read-only API, written as the code does it (through iterators) *)
Definition step (fwd : bool) (s : st) (c : cursor) := cstep (view fwd s) c.
Definition list_of (fwd : bool) (s : st) : option (list elt) :=
  drain (view fwd s) (S (length (live s))) Fresh.
Definition nth_next (fwd : bool) (s : st) (n : nat) : res elt :=   (* next(it) n+1 times *)
  match list_of fwd s with
  | None => Raise OtherError
  | Some l => match nth_error l n with Some x => Ok x | None => Raise StopIteration end
  end.
Definition getitem (i : Z) (s : st) : res elt :=
  let n := Z.of_nat (slen s) in
  if ((i >=? n) || (i <? - n))%Z then Raise IndexError
  else if (i <? 0)%Z then nth_next false s (Z.to_nat (- i - 1)) else nth_next true s (Z.to_nat i).
Definition mem (x : elt) (s : st) : res bool :=                     (* Sequence.__contains__ *)
  match list_of true s with None => Raise OtherError | Some l => Ok (existsb (Nat.eqb x) l) end.

(* ---------- schedules: several cursors interleaved with edits and queries (case runner) *)
Inductive ev :=
| ENew (fwd : bool) | EStep (i : nat) | EEdit (e : edit) | EGet (i : Z) | EMem (x : elt).

Definition mstate := (st * list (bool * cursor))%type.

Fixpoint set_nth {A} (l : list A) (i : nat) (a : A) : list A :=
  match l, i with
  | [], _ => []
  | _ :: t, 0 => a :: t
  | h :: t, S j => h :: set_nth t j a
  end.

(* result of an event, canonical: Ok (Some x) yielded/returned element, Ok None = StopIteration for a
   step and "no value" for edits; membership returns Some 1 / Some 0 *)
Definition run_ev (m : mstate) (e : ev) : mstate * res (option elt) :=
  let '(s, cs) := m in
  match e with
  | ENew fwd => ((s, cs ++ [(fwd, Fresh)]), Ok None)
  | EStep i =>
      match nth_error cs i with
      | None => (m, Raise OtherError)
      | Some (fwd, c) =>
          match step fwd s c with
          | None => (m, Raise OtherError)
          | Some (c', y) => ((s, set_nth cs i (fwd, c')), Ok y)
          end
      end
  | EEdit ed =>
      let '(s', r) := apply_edit ed s in
      ((s', cs), match r with Ok _ => Ok None | Raise x => Raise x end)
  | EGet i => (m, match getitem i s with Ok x => Ok (Some x) | Raise x => Raise x end)
  | EMem x => (m, match mem x s with Ok b => Ok (Some (if b then 1 else 0)) | Raise x => Raise x end)
  end.

(* observation compared after EVERY event: result, list(g), list(reversed(g)), len(g) *)
Definition obs := (res (option elt) * list elt * list elt * nat)%type.
Definition lst_eqb := list_eqb Nat.eqb.
Definition obs_of (m : mstate) (r : res (option elt)) : option obs :=
  match list_of true (fst m), list_of false (fst m) with
  | Some f, Some b => Some (r, f, b, slen (fst m))
  | _, _ => None
  end.
Definition obs_eqb (a b : obs) : bool :=
  let '(r1, f1, b1, n1) := a in
  let '(r2, f2, b2, n2) := b in
  res_eqb (option_eqb Nat.eqb) r1 r2 && lst_eqb f1 f2 && lst_eqb b1 b2 && (n1 =? n2).

Fixpoint agree_from (m : mstate) (tr : list (ev * option obs)) : bool :=
  match tr with
  | [] => true
  | (e, o) :: rest =>
      let '(m', r) := run_ev m e in
      match o with
      | None => agree_from m' rest               (* intermediate step of a composite Graph-level call *)
      | Some o =>
          match obs_of m' r with
          | Some o' => obs_eqb o' o && agree_from m' rest
          | None => false
          end
      end
  end.
(* a case: initial values (DoublyLinkedSet(values) = extend on the empty set) and the observed trace *)
Definition agree (c : list elt * list (ev * option obs)) : bool :=
  agree_from (extend (fst c) empty, []) (snd c).

(* exhaustive small scopes: a tree of schedules sharing prefixes; every edge carries the observation.
   Result: path (child indices, 1-based) to the first disagreeing edge, [] when all edges agree. *)
Inductive tcase := T (kids : list (ev * obs * tcase)).
Fixpoint first_fail (m : mstate) (t : tcase) : list nat :=
  match t with
  | T kids =>
      (fix go (ks : list (ev * obs * tcase)) (i : nat) : list nat :=
         match ks with
         | [] => []
         | (e, o, sub) :: rest =>
             let '(m', r) := run_ev m e in
             match obs_of m' r with
             | Some o' =>
                 if obs_eqb o' o then
                   match first_fail m' sub with
                   | [] => go rest (S i)
                   | p => i :: p
                   end
                 else [i]
             | None => [i]
             end
         end) kids 1
  end.
Definition tree_fail (init : list elt) (cursors : list bool) (t : tcase) : list nat :=
  first_fail (extend init empty, map (fun f => (f, Fresh)) cursors) t.

(* monomorphic constructors for the generated case files (keeps elaboration of big literals fast) *)
Definition RN : res (option elt) := Ok None.
Definition RY (x : elt) : res (option elt) := Ok (Some x).
Definition RE (e : exn) : res (option elt) := Raise e.
Definition OB (r : res (option elt)) (f b : list elt) (n : nat) : obs := (r, f, b, n).
Definition SO (r : res (option elt)) (f b : list elt) (n : nat) : option obs := Some (r, f, b, n).
Definition NO : option obs := None.
Definition EV (e : ev) (o : option obs) : ev * option obs := (e, o).
Definition CASE (init : list elt) (tr : list (ev * option obs)) : list elt * list (ev * option obs) := (init, tr).
Definition TE (e : ev) (o : obs) (t : tcase) : ev * obs * tcase := (e, o, t).

(* ---------- single-cursor schedules (the objects of the cursor theorems) *)
Inductive sev := SStep | SEdit (e : edit).
Fixpoint srun (fwd : bool) (evs : list sev) (s : st) (c : cursor) : option (st * cursor * list elt) :=
  match evs with
  | [] => Some (s, c, [])
  | SStep :: rest =>
      match step fwd s c with
      | None => None
      | Some (c', y) =>
          match srun fwd rest s c' with
          | None => None
          | Some (s', c'', ys) => Some (s', c'', match y with Some x => x :: ys | None => ys end)
          end
      end
  | SEdit e :: rest => srun fwd rest (fst (apply_edit e s)) c
  end.

(* ====================================================================================================
   RecursiveGraphIterator (traversal.py:21-118) over a forest of linked lists.
   A graph id names a DoublyLinkedSet (`forest`); `subs x` = the graphs carried by node x's GRAPH/GRAPHS
   attributes in the order the iterator visits them for its direction (attributes in dict order, a GRAPHS
   list reversed when reverse=True) — read when the generator resumes after yielding x; fixed here.
   The generator nest is a stack of frames (graph, flat cursor on it, subgraphs of the last yielded node
   still to enter), top first.  Subgraph cursors are created lazily: a subgraph is entered at the next()
   that needs it.  Callbacks are trace events; the code calls enter/exit TWICE per subgraph (once in
   _iterate_subgraphs, once in the nested _recursive_node_iter) and once for the top graph.
   Not modelled: the `recursive` predicate (None = visit everything), __iter__ resetting the iterator. *)
Definition gid := nat.
Definition forest := gid -> st.
Definition upd (gs : forest) (g : gid) (s : st) : forest := fun h => if h =? g then s else gs h.
(* trace events: enter_graph(g), exit_graph(g), and the call recursive(x) of the user predicate *)
Inductive cb := CEnter (g : gid) | CExit (g : gid) | CRec (x : elt).
Definition frame := (gid * cursor * list gid)%type.
(* RRun last stack: `last` = the node just yielded by the top generator, whose `recursive(node)` call (made when
   the generator resumes) is still to come *)
Inductive rcursor := RFresh (g0 : gid) | RRun (last : option elt) (stack : list frame).

Section Rec.
  Variable subs : elt -> list gid.
  Variable fwd : bool.
  Variable gs : forest.

  (* enter the pending subgraphs in order until one yields a node *)
  Fixpoint try_pending (pend : list gid) : option (option (gid * cursor * elt * list gid) * list cb) :=
    match pend with
    | [] => Some (None, [])
    | h :: t =>
        match step fwd (gs h) Fresh with
        | None => None
        | Some (c', Some x) => Some (Some (h, c', x, t), [CEnter h; CEnter h])
        | Some (_, None) =>
            match try_pending t with
            | None => None
            | Some (r, ev) => Some (r, [CEnter h; CEnter h; CExit h; CExit h] ++ ev)
            end
        end
    end.

  Fixpoint rnext_stack (stack : list frame) : option (list frame * option elt * list cb) :=
    match stack with
    | [] => Some ([], None, [])
    | (g, c, pend) :: rest =>
        match try_pending pend with
        | None => None
        | Some (Some (h, c', x, t), ev) => Some ((h, c', subs x) :: (g, c, t) :: rest, Some x, ev)
        | Some (None, ev) =>
            match step fwd (gs g) c with
            | None => None
            | Some (c', Some x) => Some ((g, c', subs x) :: rest, Some x, ev)
            | Some (_, None) =>
                let ex := match rest with [] => [CExit g] | _ => [CExit g; CExit g] end in
                match rnext_stack rest with
                | None => None
                | Some (st', y, ev') => Some (st', y, ev ++ ex ++ ev')
                end
            end
        end
    end.

End Rec.

(* the `recursive` predicate (traversal.py:73): None = descend everywhere; Some p = after yielding x the generator
   calls p(x) when it resumes and skips x's subgraphs when it answers False *)
Definition eff_subs (subs : elt -> list gid) (recp : option (elt -> bool)) (x : elt) : list gid :=
  match recp with None => subs x | Some p => if p x then subs x else [] end.

Section RecNext.
  Variable subs : elt -> list gid.
  Variable recp : option (elt -> bool).
  Variable fwd : bool.
  Variable gs : forest.

  (* next(it) on a RecursiveGraphIterator *)
  Definition rnext (rc : rcursor) : option (rcursor * option elt * list cb) :=
    match rc with
    | RFresh g0 =>
        match rnext_stack (eff_subs subs recp) fwd gs [(g0, Fresh, [])] with
        | None => None
        | Some (st', y, ev) => Some (RRun y st', y, CEnter g0 :: ev)
        end
    | RRun last stack =>
        let pre := match last, recp with Some x, Some _ => [CRec x] | _, _ => [] end in
        match rnext_stack (eff_subs subs recp) fwd gs stack with
        | None => None
        | Some (st', y, ev) => Some (RRun y st', y, pre ++ ev)
        end
    end.
End RecNext.

(* ---------- case runner for nested graphs *)
Inductive rev_ :=
| RNew (fwd : bool) (stop : option (list elt)) (withcb : bool)   (* stop = nodes where recursive(node) is False *)
| FNew (g : gid) (fwd : bool) | RStep (i : nat) | REdit (g : gid) (e : edit)
| RRestart (i : nat).    (* iter(it): RecursiveGraphIterator.__iter__ replaces its generator by a new one on the top graph *)
Inductive riter :=
| IFlat (g : gid) (fwd : bool) (c : cursor)
| IRec (fwd : bool) (stop : option (list elt)) (withcb : bool) (rc : rcursor).
Definition pred_of (stop : option (list elt)) : option (elt -> bool) :=
  match stop with None => None | Some l => Some (fun x => negb (existsb (Nat.eqb x) l)) end.
Definition rmstate := (forest * list riter)%type.
Fixpoint assoc_subs (tbl : list (elt * list gid)) (x : elt) : list gid :=
  match tbl with [] => [] | (y, l) :: t => if y =? x then l else assoc_subs t x end.
Definition cb_code (c : cb) : nat :=
  match c with CEnter g => 3 * g | CExit g => 3 * g + 1 | CRec x => 3 * x + 2 end.
Definition is_rec (c : cb) : bool := match c with CRec _ => true | _ => false end.

Section RecRun.
  Variables (tf tb : list (elt * list gid)).     (* subs tables for forward / reverse traversal *)
  Definition subs_for (fwd : bool) := assoc_subs (if fwd then tf else tb).

  Definition rrun_ev (m : rmstate) (e : rev_) : rmstate * res (option elt) * list nat :=
    let '(gs, its) := m in
    match e with
    | RNew fwd stop withcb => ((gs, its ++ [IRec fwd stop withcb (RFresh 0)]), Ok None, [])
    | FNew g fwd => ((gs, its ++ [IFlat g fwd Fresh]), Ok None, [])
    | RStep i =>
        match nth_error its i with
        | None => (m, Raise OtherError, [])
        | Some (IFlat g fwd c) =>
            match step fwd (gs g) c with
            | None => (m, Raise OtherError, [])
            | Some (c', y) => ((gs, set_nth its i (IFlat g fwd c')), Ok y, [])
            end
        | Some (IRec fwd stop withcb rc) =>
            match rnext (subs_for fwd) (pred_of stop) fwd gs rc with
            | None => (m, Raise OtherError, [])
            | Some (rc', y, ev) =>
                (* without enter/exit callbacks only the predicate calls are observable *)
                let ev' := if withcb then ev else filter is_rec ev in
                ((gs, set_nth its i (IRec fwd stop withcb rc')), Ok y, map cb_code ev')
            end
        end
    | REdit g ed =>
        let '(s', r) := apply_edit ed (gs g) in
        ((upd gs g s', its), match r with Ok _ => Ok None | Raise x => Raise x end, [])
    | RRestart i =>
        match nth_error its i with
        | None => (m, Raise OtherError, [])
        | Some (IFlat _ _ _) => (m, Ok None, [])       (* iter(generator) is the generator itself *)
        | Some (IRec fwd stop withcb _) =>
            (* the old generator is dropped where it stands (the graphs it holds open are never exited) *)
            ((gs, set_nth its i (IRec fwd stop withcb (RFresh 0))), Ok None, [])
        end
    end.

  Definition robs := (res (option elt) * list nat * list (list elt))%type.
  Fixpoint lists_of (gs : forest) (ids : list gid) : option (list (list elt)) :=
    match ids with
    | [] => Some []
    | g :: t => match list_of true (gs g), lists_of gs t with
                | Some l, Some r => Some (l :: r)
                | _, _ => None
                end
    end.
  (* The property needs the callbacks balanced and properly nested (ProofsR3: cb_run), not a particular
     multiplicity: the code happens to call enter/exit twice per subgraph.  The correspondence therefore compares
     the traces up to repetition of the same call (adjacent duplicates collapsed), so that a clean-up to one call
     each does not break it; the discipline itself is checked exactly by the oracle on the implementation. *)
  Fixpoint dedup_adj (l : list nat) : list nat :=
    match l with
    | a :: ((b :: _) as t) => if a =? b then dedup_adj t else a :: dedup_adj t
    | _ => l
    end.
  Definition robs_eqb (a b : robs) : bool :=
    let '(r1, c1, l1) := a in let '(r2, c2, l2) := b in
    res_eqb (option_eqb Nat.eqb) r1 r2 && lst_eqb (dedup_adj c1) (dedup_adj c2) && list_eqb lst_eqb l1 l2.

  Fixpoint ragree_from (ids : list gid) (m : rmstate) (tr : list (rev_ * robs)) : bool :=
    match tr with
    | [] => true
    | (e, o) :: rest =>
        let '(m', r, cbs) := rrun_ev m e in
        match lists_of (fst m') ids with
        | Some ls => robs_eqb (r, cbs, ls) o && ragree_from ids m' rest
        | None => false
        end
    end.
End RecRun.

Fixpoint init_forest (inits : list (list elt)) (g : gid) : forest :=
  match inits with
  | [] => fun _ => empty
  | l :: t => upd (init_forest t (S g)) g (extend l empty)
  end.
(* a case: subs tables, initial node lists of graphs 0..n-1, observed trace *)
Definition RCASE (tf tb : list (elt * list gid)) (inits : list (list elt)) (tr : list (rev_ * robs)) :=
  (tf, tb, inits, tr).
Definition ragree (c : list (elt * list gid) * list (elt * list gid) * list (list elt) * list (rev_ * robs)) : bool :=
  let '(tf, tb, inits, tr) := c in
  ragree_from tf tb (seq 0 (length inits)) (init_forest inits 0, []) tr.
Definition REV (e : rev_) (r : res (option elt)) (cbs : list nat) (ls : list (list elt)) : rev_ * robs :=
  (e, (r, cbs, ls)).

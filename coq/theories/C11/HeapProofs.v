(* C11/HeapProofs.v — the translated pointer code (Gen/C11Gen.v) refines the sequence + tombstone model.
   Part 1: how the derived pointers nxt/prv of the live sequence change under erase and insert. *)
From Coq Require Import List Arith ZArith Bool Lia.
From IRV Require Import Base.Exn C11.Model C11.Proofs C11.Proofs2 C11.Proofs3 C11.Proofs4 C11.Proofs5.
Import ListNotations.

Definition nxt (l : boxes) (r : ref) : ref := match r with Root => head_ref l | B c => succ_ref l c end.
Definition prv (l : boxes) (r : ref) : ref := match r with Root => last_ref l | B c => pred_ref l c end.
Definition rlive (l : boxes) (r : ref) : Prop := match r with Root => True | B c => In c (ids l) end.

Lemma prv_rev l r : prv l r = nxt (rev l) r.
Proof. destruct r; reflexivity. Qed.

Lemma rlive_rev l r : rlive (rev l) r <-> rlive l r.
Proof. destruct r as [|c]; simpl; [tauto|]. rewrite ids_rev. symmetry. apply in_rev. Qed.

Lemma last_ref_snoc l c y : last_ref (l ++ [(c, y)]) = B c.
Proof. unfold last_ref. rewrite rev_app_distr. reflexivity. Qed.

Lemma last_ref_app_cons l p q : last_ref (l ++ p :: q) = last_ref (p :: q).
Proof. unfold last_ref. rewrite rev_app_distr. simpl. destruct (rev q ++ [p]) eqn:E; [|reflexivity].
  apply app_eq_nil in E. destruct E; discriminate. Qed.

Lemma last_ref_in (l : boxes) : match last_ref l with Root => l = [] | B c => In c (ids l) end.
Proof.
  unfold last_ref. destruct (rev l) as [|p t] eqn:E; simpl.
  - rewrite <- (rev_involutive l), E. reflexivity.
  - assert (H : In p (rev l)) by (rewrite E; left; reflexivity). apply in_rev in H. apply (in_map fst) in H. exact H.
Qed.

(* the pointer of r after the gap: if the live sequence is l1 ++ l2 and l1 ends at r *)
Lemma nxt_char l1 l2 : NoDup (ids (l1 ++ l2)) -> nxt (l1 ++ l2) (last_ref l1) = head_ref l2.
Proof.
  intros Hnd. destruct (rev l1) as [|[c y] t] eqn:E.
  - assert (l1 = []) by (rewrite <- (rev_involutive l1), E; reflexivity). subst. reflexivity.
  - assert (E1 : l1 = rev t ++ [(c, y)]) by (rewrite <- (rev_involutive l1), E; reflexivity). subst l1.
    rewrite last_ref_snoc. simpl. unfold succ_ref. rewrite <- app_assoc. simpl. rewrite after_mid; [reflexivity|].
    rewrite <- app_assoc in Hnd. simpl in Hnd. apply NoDup_mid_notin in Hnd. tauto.
Qed.

Lemma nxt_erase l b r :
  NoDup (ids l) -> In b (ids l) -> rlive l r -> r <> B b ->
  nxt (rm_box b l) r = if ref_eqb r (prv l (B b)) then nxt l (B b) else nxt l r.
Proof.
  intros Hnd Hb Hr Hne. destruct (from_split _ _ Hb) as [l1 [x [l2 [E [N1 _]]]]]. subst l.
  destruct (NoDup_mid_notin _ _ _ _ Hnd) as [_ N2].
  rewrite rm_box_mid by assumption.
  assert (Hp : prv (l1 ++ (b, x) :: l2) (B b) = last_ref l1) by (apply pred_ref_mid; exact N2).
  assert (Hn : nxt (l1 ++ (b, x) :: l2) (B b) = head_ref l2) by (simpl; unfold succ_ref; rewrite after_mid by exact N1; reflexivity).
  rewrite Hp, Hn.
  assert (Hnd' : NoDup (ids (l1 ++ l2))).
  { rewrite ids_app in *. simpl in Hnd. apply NoDup_remove_1 in Hnd. exact Hnd. }
  destruct r as [|c]; simpl.
  - destruct l1 as [|p l1']; simpl; [reflexivity|].
    assert (Hl : last_ref (p :: l1') <> Root).
    { pose proof (last_ref_in (p :: l1')) as H. destruct (last_ref (p :: l1')); [discriminate|discriminate]. }
    destruct (last_ref (p :: l1')); [congruence|reflexivity].
  - simpl in Hr. rewrite ids_app in Hr. simpl in Hr. apply in_app_or in Hr.
    assert (Hcb : c <> b) by congruence.
    destruct Hr as [Hr|[Hr|Hr]]; [|congruence|].
    + (* c in l1 *)
      destruct (from_split _ _ Hr) as [a1 [y [a2 [E [Na1 _]]]]]. subst l1.
      rewrite <- !app_assoc in *. simpl in *.
      unfold succ_ref. rewrite !after_mid by exact Na1.
      destruct a2 as [|q a2']; simpl.
      * rewrite last_ref_snoc. simpl. rewrite Nat.eqb_refl. reflexivity.
      * rewrite last_ref_app_cons.
        assert (Hq : last_ref ((c, y) :: q :: a2') <> B c).
        { change ((c, y) :: q :: a2') with ([(c, y)] ++ q :: a2'). rewrite last_ref_app_cons.
          pose proof (last_ref_in (q :: a2')) as H. destruct (last_ref (q :: a2')) as [|d]; [discriminate|].
          intros Ed. inversion Ed; subst d.
          rewrite ids_app in Hnd'. simpl in Hnd'. apply NoDup_app_inv in Hnd'. destruct Hnd' as [_ [Hn2 _]].
          inversion Hn2 as [|? ? Hnc _]; subst. apply Hnc. simpl in H. simpl. rewrite ids_app.
          destruct H as [H|H]; [left; exact H|right; apply in_or_app; left; exact H]. }
        assert (Eb : ref_eqb (B c) (last_ref ((c, y) :: q :: a2')) = false) by (apply ref_eqb_neq; congruence).
        simpl in Eb |- *. rewrite Eb. reflexivity.
    + (* c in l2 *)
      destruct (from_split _ _ Hr) as [a1 [y [a2 [E [Na1 _]]]]]. subst l2.
      assert (Nc1 : ~ In c (ids l1)).
      { intros H. rewrite ids_app in Hnd'. apply NoDup_app_inv in Hnd'. destruct Hnd' as [_ [_ Hd]].
        apply (Hd c H). rewrite ids_app. apply in_or_app. right. left. reflexivity. }
      unfold succ_ref.
      replace (l1 ++ a1 ++ (c, y) :: a2) with ((l1 ++ a1) ++ (c, y) :: a2) by (rewrite <- app_assoc; reflexivity).
      replace (l1 ++ (b, x) :: a1 ++ (c, y) :: a2) with ((l1 ++ (b, x) :: a1) ++ (c, y) :: a2)
        by (rewrite <- app_assoc; reflexivity).
      rewrite !after_mid.
      * assert (Eb : ref_eqb (B c) (last_ref l1) = false).
        { apply ref_eqb_neq. intros Eb. pose proof (last_ref_in l1) as H. rewrite <- Eb in H. contradiction. }
        simpl in Eb |- *. rewrite Eb. reflexivity.
      * rewrite ids_app. simpl. intros H. apply in_app_or in H. simpl in H. destruct H as [H|[H|H]]; [tauto|congruence|tauto].
      * rewrite ids_app. intros H. apply in_app_or in H. tauto.
Qed.

Lemma prv_erase l b r :
  NoDup (ids l) -> In b (ids l) -> rlive l r -> r <> B b ->
  prv (rm_box b l) r = if ref_eqb r (nxt l (B b)) then prv l (B b) else prv l r.
Proof.
  intros Hnd Hb Hr Hne. rewrite !prv_rev, <- rm_box_rev.
  rewrite nxt_erase; [| rewrite ids_rev; apply NoDup_rev; exact Hnd | rewrite ids_rev; apply -> in_rev; exact Hb
                      | apply rlive_rev; exact Hr | exact Hne].
  rewrite prv_rev, rev_involutive. reflexivity.
Qed.

(* a fresh box bx in the gap l1 | l2 *)
Lemma nxt_insert l1 l2 bx r :
  NoDup (ids (l1 ++ bx :: l2)) -> rlive (l1 ++ bx :: l2) r ->
  nxt (l1 ++ bx :: l2) r =
    if ref_eqb r (last_ref l1) then B (fst bx)
    else if ref_eqb r (B (fst bx)) then head_ref l2 else nxt (l1 ++ l2) r.
Proof.
  intros Hnd Hr. destruct bx as [n x]. simpl fst.
  pose proof (nxt_char l1 ((n, x) :: l2) Hnd) as H1. simpl in H1.
  assert (H2 : nxt (l1 ++ (n, x) :: l2) (B n) = head_ref l2).
  { simpl. unfold succ_ref. rewrite after_mid; [reflexivity|]. apply NoDup_mid_notin in Hnd. tauto. }
  destruct (NoDup_mid_notin _ _ _ _ Hnd) as [Nn1 Nn2].
  assert (Hl1 : last_ref l1 <> B n).
  { pose proof (last_ref_in l1) as H. destruct (last_ref l1) as [|d]; [discriminate|]. intros E. inversion E; subst. contradiction. }
  destruct (ref_eqb r (last_ref l1)) eqn:E1.
  - apply ref_eqb_eq in E1. subst r. exact H1.
  - apply ref_eqb_neq in E1. destruct (ref_eqb r (B n)) eqn:E2.
    + apply ref_eqb_eq in E2. subst r. exact H2.
    + apply ref_eqb_neq in E2. destruct r as [|c]; simpl.
      * destruct l1 as [|p l1']; simpl; [exfalso; apply E1; reflexivity|reflexivity].
      * simpl in Hr. rewrite ids_app in Hr. simpl in Hr. apply in_app_or in Hr.
        destruct Hr as [Hr|[Hr|Hr]]; [|congruence|].
        -- destruct (from_split _ _ Hr) as [a1 [y [a2 [E [Na1 _]]]]]. subst l1.
           rewrite <- !app_assoc. simpl. unfold succ_ref. rewrite !after_mid by exact Na1.
           destruct a2 as [|q a2']; simpl; [|reflexivity].
           exfalso. apply E1. rewrite last_ref_snoc. reflexivity.
        -- destruct (from_split _ _ Hr) as [a1 [y [a2 [E [Na1 _]]]]]. subst l2.
           assert (Nc1 : ~ In c (ids l1)).
           { intros H. rewrite ids_app in Hnd. apply NoDup_app_inv in Hnd. destruct Hnd as [_ [_ Hd]].
             apply (Hd c H). simpl. right. rewrite ids_app. apply in_or_app. right. left. reflexivity. }
           unfold succ_ref.
           replace (l1 ++ a1 ++ (c, y) :: a2) with ((l1 ++ a1) ++ (c, y) :: a2) by (rewrite <- app_assoc; reflexivity).
           replace (l1 ++ (n, x) :: a1 ++ (c, y) :: a2) with ((l1 ++ (n, x) :: a1) ++ (c, y) :: a2)
             by (rewrite <- app_assoc; reflexivity).
           rewrite !after_mid; [reflexivity| |].
           ++ rewrite ids_app. intros H. apply in_app_or in H. tauto.
           ++ rewrite ids_app. simpl. intros H. apply in_app_or in H. simpl in H. destruct H as [H|[H|H]]; [tauto|congruence|tauto].
Qed.

Lemma prv_insert l1 l2 bx r :
  NoDup (ids (l1 ++ bx :: l2)) -> rlive (l1 ++ bx :: l2) r ->
  prv (l1 ++ bx :: l2) r =
    if ref_eqb r (head_ref l2) then B (fst bx)
    else if ref_eqb r (B (fst bx)) then last_ref l1 else prv (l1 ++ l2) r.
Proof.
  intros Hnd Hr. rewrite !prv_rev. rewrite !rev_app_distr. simpl. rewrite <- app_assoc. simpl.
  rewrite nxt_insert.
  - unfold last_ref. rewrite rev_involutive. reflexivity.
  - assert (E : ids (rev l2 ++ bx :: rev l1) = rev (ids (l1 ++ bx :: l2))).
    { rewrite !ids_app. simpl. rewrite !ids_rev, rev_app_distr. simpl. rewrite <- app_assoc. reflexivity. }
    rewrite E. apply NoDup_rev. exact Hnd.
  - destruct r as [|c]; simpl; [exact I|]. simpl in Hr.
    assert (E : ids (rev l2 ++ bx :: rev l1) = rev (ids (l1 ++ bx :: l2))).
    { rewrite !ids_app. simpl. rewrite !ids_rev, rev_app_distr. simpl. rewrite <- app_assoc. reflexivity. }
    rewrite E. apply -> in_rev. exact Hr.
Qed.

(* C11/Proofs2.v — well-formedness is preserved by the primitive effects; the two-directional structure;
   every public edit is a composition of primitive effects on the elements it names. *)
From Coq Require Import List Arith ZArith Bool Lia Permutation.
From IRV Require Import Base.Exn C11.Model C11.Proofs.
Import ListNotations.

(* ---------- dwf preserved *)
Lemma ptr_ok_mono lv lv' t : (forall n, In n lv -> In n lv') -> ptr_ok lv t -> ptr_ok lv' t.
Proof.
  intros Hm. induction t as [|e tl IH]; simpl; [tauto|]. intros [H1 H2]. split; [|apply IH; exact H2].
  destruct (snd e) as [|n]; simpl in *; [exact I|]. destruct H1 as [H1|H1]; [left; apply Hm; exact H1|right; exact H1].
Qed.

Lemma tids_app t1 t2 : tids (t1 ++ t2) = tids t1 ++ tids t2.
Proof. apply map_app. Qed.

Lemma ptr_ok_snoc lv lv' t b r :
  ptr_ok lv t -> (forall n, In n lv -> In n lv' \/ n = b) -> ref_ok lv' [] r -> ptr_ok lv' (t ++ [(b, r)]).
Proof.
  intros Hp Hm Hr. induction t as [|e tl IH]; simpl.
  - split; [exact Hr|exact I].
  - simpl in Hp. destruct Hp as [H1 H2]. split; [|apply IH; exact H2].
    destruct (snd e) as [|n]; simpl in *; [exact I|]. rewrite tids_app. simpl.
    destruct H1 as [H1|H1].
    + destruct (Hm n H1) as [H|H]; [left; exact H|]. right. apply in_or_app. right. left. congruence.
    + right. apply in_or_app. left. exact H1.
Qed.

Lemma head_ref_sub (l : boxes) lv : (forall n, In n (ids l) -> In n lv) -> ref_ok lv [] (head_ref l).
Proof. destruct l as [|p tl]; simpl; [tauto|]. intros H. left. apply H. left. reflexivity. Qed.

Lemma dwf_erase ds b : dwf ds -> In b (ids (dl ds)) -> dwf (d_erase b ds).
Proof.
  intros Hw Hb. pose proof (dwf_live_nodup ds Hw) as Hnd. pose proof (dwf_tids_not_live ds Hw) as Hdj.
  destruct Hw as [Hn Hp]. unfold d_erase, dwf. simpl. split.
  - rewrite tids_app. simpl. apply NoDup_app_intro.
    + rewrite ids_rm_box. apply NoDup_filter. exact Hnd.
    + apply NoDup_app_intro.
      * apply NoDup_app_inv in Hn. tauto.
      * constructor; [intros []|constructor].
      * intros x Hx [E|[]]. subst x. exact (Hdj b Hx Hb).
    + intros x Hx Hx'. apply in_ids_rm_box in Hx. destruct Hx as [Hx Hne].
      apply in_app_or in Hx'. destruct Hx' as [Hx'|[E|[]]]; [exact (Hdj x Hx' Hx)|congruence].
  - apply ptr_ok_snoc with (lv := ids (dl ds)); [exact Hp| |].
    + intros n Hn'. destruct (Nat.eq_dec n b) as [E|E]; [right; exact E|left]. apply in_ids_rm_box. tauto.
    + unfold succ_ref. apply head_ref_sub. intros n Hn'.
      destruct (from_split _ _ Hb) as [l1 [x [l2 [E [N F]]]]]. unfold after in Hn'. rewrite F in Hn'. simpl in Hn'.
      apply in_ids_rm_box. rewrite E in Hnd. destruct (NoDup_mid_notin _ _ _ _ Hnd) as [_ N2]. split.
      * rewrite E, ids_app. apply in_or_app. right. right. exact Hn'.
      * intros E'. subst n. contradiction.
Qed.

Lemma dwf_ins l1 l2 t bx :
  dwf (mkD (l1 ++ l2) t) -> ~ In (fst bx) (ids (l1 ++ l2) ++ tids t) -> dwf (mkD (l1 ++ bx :: l2) t).
Proof.
  intros [Hn Hp] Hf. unfold dwf in *. simpl in *. split.
  - rewrite ids_app in *. simpl.
    apply (Permutation_NoDup (l := fst bx :: (ids l1 ++ ids l2) ++ tids t)).
    + change (fst bx :: (ids l1 ++ ids l2) ++ tids t) with ((fst bx :: ids l1 ++ ids l2) ++ tids t).
      apply Permutation_app_tail. apply Permutation_middle.
    + constructor; assumption.
  - apply (ptr_ok_mono (ids (l1 ++ l2))); [|exact Hp].
    intros n H. rewrite ids_app in *. simpl. apply in_app_or in H. apply in_or_app. simpl. tauto.
Qed.

Lemma cvalid_erase ds b c : cvalid ds c -> cvalid (d_erase b ds) c.
Proof.
  destruct c as [|b0|]; simpl; try tauto. rewrite tids_app. simpl. intros [H|H].
  - destruct (Nat.eq_dec b0 b) as [E|E].
    + right. apply in_or_app. right. left. congruence.
    + left. apply in_ids_rm_box. tauto.
  - right. apply in_or_app. left. exact H.
Qed.

Lemma cvalid_ins l1 l2 t bx c : cvalid (mkD (l1 ++ l2) t) c -> cvalid (mkD (l1 ++ bx :: l2) t) c.
Proof.
  destruct c as [|b0|]; simpl; try tauto. rewrite !ids_app. simpl. intros [H|H]; [left|right; exact H].
  apply in_app_or in H. apply in_or_app. simpl. tauto.
Qed.

(* ---------- the two-directional structure *)
Definition fresh_ok (s : st) : Prop :=
  forall b, In b (ids (live s)) \/ In b (map fst (tomb s)) -> b < nid s.
Definition wf (s : st) : Prop :=
  dwf (view true s) /\ dwf (view false s) /\ NoDup (to_list s) /\ slen s = length (live s) /\ fresh_ok s.
Definition ref_live (s : st) (r : ref) : Prop :=
  match r with Root => True | B b => In b (ids (live s)) end.

Lemma view_dl fwd s : dl (view fwd s) = if fwd then live s else rev (live s).
Proof. destruct fwd; reflexivity. Qed.

Lemma view_tids fwd s : tids (dt (view fwd s)) = map fst (tomb s).
Proof. destruct fwd; simpl; unfold tids; rewrite map_map; reflexivity. Qed.

Lemma ids_rev (l : boxes) : ids (rev l) = rev (ids l).
Proof. apply map_rev. Qed.

Lemma in_ids_view fwd s b : In b (ids (dl (view fwd s))) <-> In b (ids (live s)).
Proof. destruct fwd; simpl; [tauto|]. rewrite ids_rev. symmetry. apply in_rev. Qed.

Lemma rm_box_rev b l : rm_box b (rev l) = rev (rm_box b l).
Proof.
  induction l as [|p tl IH]; [reflexivity|]. simpl. rewrite rm_box_app, IH, !rm_box_cons.
  destruct (fst p =? b); simpl; [rewrite app_nil_r|]; reflexivity.
Qed.

Lemma view_erase fwd b s : view fwd (erase_box b s) = d_erase b (view fwd s).
Proof.
  destruct fwd; unfold view, erase_box, d_erase; simpl; rewrite map_app; simpl; [reflexivity|].
  rewrite rm_box_rev. reflexivity.
Qed.

Lemma wf_empty : wf empty.
Proof.
  unfold wf, empty, dwf, fresh_ok; simpl. repeat split; try constructor. intros b [[]|[]].
Qed.

(* where a reference sits: the gap right after it *)
Lemma ins_after_ref_split l r bx :
  match r with Root => True | B b => In b (ids l) end -> NoDup (ids l) ->
  exists l1 l2, l = l1 ++ l2 /\ ins_after_ref l r bx = l1 ++ bx :: l2 /\
    last_ref l1 = r /\ head_ref l2 = match r with Root => head_ref l | B b => succ_ref l b end.
Proof.
  destruct r as [|b]; simpl.
  - intros _ _. exists [], l. repeat split.
  - intros Hb Hnd. destruct (from_split _ _ Hb) as [a1 [x [a2 [E [N F]]]]].
    exists (a1 ++ [(b, x)]), a2. subst l. repeat split.
    + rewrite <- app_assoc. reflexivity.
    + rewrite <- app_assoc. simpl. clear Hb Hnd F. induction a1 as [|p tl IH]; simpl.
      * rewrite Nat.eqb_refl. reflexivity.
      * destruct (fst p =? b) eqn:E.
        -- apply Nat.eqb_eq in E. exfalso. apply N. left. exact E.
        -- f_equal. apply IH. intros H. apply N. right. exact H.
    + unfold last_ref. rewrite rev_app_distr. reflexivity.
    + unfold succ_ref. rewrite after_mid by exact N. reflexivity.
Qed.

Lemma length_rm_box_mid b x (l1 l2 : boxes) :
  ~ In b (ids l1) -> ~ In b (ids l2) -> length (rm_box b (l1 ++ (b, x) :: l2)) = pred (length (l1 ++ (b, x) :: l2)).
Proof. intros H1 H2. rewrite rm_box_mid by assumption. rewrite !app_length. simpl. lia. Qed.

Lemma to_list_rm_box s b x :
  NoDup (ids (live s)) -> In (b, x) (live s) ->
  map snd (rm_box b (live s)) = remove Nat.eq_dec x (to_list s) \/ True.
Proof. intros. right. exact I. Qed.

Lemma wf_erase s b : wf s -> In b (ids (live s)) -> wf (erase_box b s).
Proof.
  intros [W1 [W2 [W3 [W4 W5]]]] Hb. unfold wf. rewrite !view_erase.
  pose proof (dwf_live_nodup _ W1) as Hnd. simpl in Hnd.
  destruct (from_split _ _ Hb) as [l1 [x [l2 [E [N F]]]]].
  assert (N2 : ~ In b (ids l2)) by (rewrite E in Hnd; apply NoDup_mid_notin in Hnd; tauto).
  split; [|split; [|split; [|split]]].
  - apply dwf_erase; [exact W1|exact Hb].
  - apply dwf_erase; [exact W2|]. apply in_ids_view. exact Hb.
  - unfold to_list, erase_box in *. simpl. rewrite E in *. rewrite rm_box_mid by assumption.
    rewrite map_app in *. simpl in W3. apply NoDup_remove_1 in W3. exact W3.
  - unfold erase_box. simpl. rewrite W4, E. symmetry. apply length_rm_box_mid; assumption.
  - unfold fresh_ok, erase_box in *. simpl. intros b0 [H|H].
    + apply W5. left. apply in_ids_rm_box in H. tauto.
    + rewrite map_app in H. simpl in H. apply in_app_or in H. destruct H as [H|[H|[]]].
      * apply W5. right. exact H.
      * subst b0. apply W5. left. exact Hb.
Qed.

Lemma fresh_nid s : fresh_ok s -> ~ In (nid s) (ids (live s) ++ map fst (tomb s)).
Proof. intros H Hi. apply in_app_or in Hi. apply H in Hi. lia. Qed.

Lemma view_ins r x s l1 l2 :
  live s = l1 ++ l2 -> ins_after_ref (live s) r (nid s, x) = l1 ++ (nid s, x) :: l2 ->
  view true (ins_box r x s) = mkD (l1 ++ (nid s, x) :: l2) (dt (view true s)) /\
  view false (ins_box r x s) = mkD (rev l2 ++ (nid s, x) :: rev l1) (dt (view false s)) /\
  view true s = mkD (l1 ++ l2) (dt (view true s)) /\
  view false s = mkD (rev l2 ++ rev l1) (dt (view false s)).
Proof.
  intros E Ei. unfold view, ins_box. cbn [live tomb dl dt]. rewrite Ei. rewrite E.
  rewrite !rev_app_distr. simpl. rewrite <- !app_assoc. simpl. repeat split.
Qed.

Lemma wf_ins s r x : wf s -> ref_live s r -> ~ In x (to_list s) -> wf (ins_box r x s).
Proof.
  intros [W1 [W2 [W3 [W4 W5]]]] Hr Hx.
  pose proof (dwf_live_nodup _ W1) as Hnd. simpl in Hnd.
  destruct (ins_after_ref_split (live s) r (nid s, x) Hr Hnd) as [l1 [l2 [E [Ei _]]]].
  pose proof (fresh_nid s W5) as Hf.
  destruct (view_ins r x s l1 l2 E Ei) as [V1 [V2 [V3 V4]]].
  unfold wf. rewrite V1, V2. rewrite V3 in W1. rewrite V4 in W2.
  split; [|split; [|split; [|split]]].
  - apply dwf_ins; [exact W1|]. cbn [fst]. rewrite <- E, view_tids. exact Hf.
  - apply dwf_ins; [exact W2|]. cbn [fst]. rewrite <- rev_app_distr, <- E, view_tids.
    intros H. apply Hf. apply in_app_or in H. apply in_or_app. destruct H as [H|H]; [left|right; exact H].
    rewrite ids_rev in H. apply in_rev in H. exact H.
  - unfold to_list in *. unfold ins_box. cbn [live]. rewrite Ei. rewrite E in *. rewrite map_app in *. simpl.
    apply (Permutation_NoDup (l := x :: map snd l1 ++ map snd l2)); [apply Permutation_middle|].
    constructor; assumption.
  - unfold ins_box. cbn [live slen]. rewrite Ei, W4, E. rewrite !app_length. simpl. lia.
  - unfold fresh_ok, ins_box in *. cbn [live tomb nid]. rewrite Ei. intros b [H|H].
    + rewrite ids_app in H. simpl in H. apply in_app_or in H.
      destruct H as [H|[H|H]]; [| lia |]; apply Nat.lt_lt_succ_r; apply W5; left; rewrite E, ids_app;
        apply in_or_app; tauto.
    + apply Nat.lt_lt_succ_r. apply W5. right. exact H.
Qed.

(* ---------- every edit is a composition of primitive effects on elements it names *)
Section Prims.
  Variable U : elt -> bool.     (* the watched elements: a primitive effect never concerns one of them *)

  Inductive prim : st -> st -> Prop :=
  | prim_erase s b x : In (b, x) (live s) -> U x = false -> prim s (erase_box b s)
  | prim_ins s r x : ref_live s r -> ~ In x (to_list s) -> U x = false -> prim s (ins_box r x s).

  Inductive prims : st -> st -> Prop :=
  | prims_refl s : prims s s
  | prims_step s1 s2 s3 : prim s1 s2 -> prims s2 s3 -> prims s1 s3.

  Lemma prims_trans s1 s2 s3 : prims s1 s2 -> prims s2 s3 -> prims s1 s3.
  Proof. induction 1; [tauto|]. intros H3. eapply prims_step; [eassumption|]. apply IHprims. exact H3. Qed.

  Lemma prims_one s1 s2 : prim s1 s2 -> prims s1 s2.
  Proof. intros H. eapply prims_step; [exact H|apply prims_refl]. Qed.

  Lemma in_live_ids (l : boxes) b x : In (b, x) l -> In b (ids l).
  Proof. intros H. apply (in_map fst) in H. exact H. Qed.

  Lemma prim_wf s s' : wf s -> prim s s' -> wf s'.
  Proof.
    intros Hw H. destruct H as [s0 b x Hi _|s0 r x Hr Hx _].
    - apply wf_erase; [exact Hw|]. eapply in_live_ids. exact Hi.
    - apply wf_ins; assumption.
  Qed.

  Lemma prims_wf s s' : wf s -> prims s s' -> wf s'.
  Proof. intros Hw H. induction H; [exact Hw|]. apply IHprims. eapply prim_wf; eassumption. Qed.
End Prims.

Lemma find_box_Some l x b : find_box l x = Some b -> In (b, x) l.
Proof.
  induction l as [|p tl IH]; simpl; [discriminate|].
  destruct (snd p =? x) eqn:E.
  - apply Nat.eqb_eq in E. intros H. inversion H; subst. left. destruct p; reflexivity.
  - intros H. right. apply IH. exact H.
Qed.

Lemma find_box_None l x : find_box l x = None <-> ~ In x (map snd l).
Proof.
  induction l as [|p tl IH]; simpl.
  - split; [intros _ []|reflexivity].
  - destruct (snd p =? x) eqn:E.
    + apply Nat.eqb_eq in E. split; [discriminate|]. intros H. exfalso. apply H. left. exact E.
    + apply Nat.eqb_neq in E. rewrite IH. split.
      * intros H [H1|H1]; [congruence|exact (H H1)].
      * intros H H1. apply H. right. exact H1.
Qed.

Lemma to_list_erase s b x :
  NoDup (ids (live s)) -> NoDup (to_list s) -> In (b, x) (live s) ->
  ~ In x (to_list (erase_box b s)) /\ (forall y, y <> x -> (In y (to_list (erase_box b s)) <-> In y (to_list s))).
Proof.
  intros Hnd Hnx Hi. unfold to_list, erase_box in *. simpl.
  destruct (from_split _ _ (in_live_ids _ _ _ Hi)) as [l1 [x' [l2 [E [N F]]]]].
  rewrite E in *. destruct (NoDup_mid_notin _ _ _ _ Hnd) as [_ N2].
  assert (x' = x).
  { apply in_app_or in Hi. destruct Hi as [Hi|[Hi|Hi]].
    - exfalso. apply N. eapply in_live_ids. exact Hi.
    - congruence.
    - exfalso. apply N2. eapply in_live_ids. exact Hi. }
  subst x'. rewrite rm_box_mid by assumption. rewrite map_app in *. simpl in *. split.
  - apply NoDup_remove_2 in Hnx. exact Hnx.
  - intros y Hy. rewrite !map_app. simpl. rewrite !in_app_iff. simpl. split; [tauto|]. intros [H|[H|H]]; [tauto|congruence|tauto].
Qed.

Lemma ref_live_erase s b r :
  ref_live s r -> r <> B b -> ref_live (erase_box b s) r.
Proof.
  destruct r as [|n]; simpl; [tauto|]. intros H Hn. apply in_ids_rm_box. split; [exact H|congruence].
Qed.

Lemma val_of_In l b x : NoDup (ids l) -> In (b, x) l -> val_of l b = Some x.
Proof.
  intros Hnd Hi. destruct (from_split _ _ (in_live_ids _ _ _ Hi)) as [l1 [x' [l2 [E [N F]]]]].
  destruct (val_of_from _ _ _ _ F) as [_ V]. rewrite V. simpl. f_equal.
  rewrite E in Hnd, Hi. destruct (NoDup_mid_notin _ _ _ _ Hnd) as [_ N2].
  apply in_app_or in Hi. destruct Hi as [Hi|[Hi|Hi]].
  - exfalso. apply N. eapply in_live_ids. exact Hi.
  - congruence.
  - exfalso. apply N2. eapply in_live_ids. exact Hi.
Qed.

Lemma ins_box_live_new s r x : ref_live s r -> NoDup (ids (live s)) -> In (nid s) (ids (live (ins_box r x s))).
Proof.
  intros Hr Hnd. destruct (ins_after_ref_split (live s) r (nid s, x) Hr Hnd) as [l1 [l2 [_ [Ei _]]]].
  unfold ins_box. simpl. rewrite Ei, ids_app. apply in_or_app. right. left. reflexivity.
Qed.

(* _insert_one_after: a no-op, or (erase the old occurrence)? ; insert a fresh box *)
Lemma insert_one_prims U r x s :
  wf s -> ref_live s r -> U x = false ->
  prims U s (fst (insert_one_after r x s)) /\ ref_live (fst (insert_one_after r x s)) (snd (insert_one_after r x s)).
Proof.
  intros Hw Hr Hu. unfold insert_one_after.
  pose proof Hw as [W1 [_ [W3 _]]]. pose proof (dwf_live_nodup _ W1) as Hnd. simpl in Hnd.
  destruct (option_eqb Nat.eqb (val_ref (live s) r) (Some x)) eqn:Eo.
  - simpl. split; [apply prims_refl|exact Hr].
  - destruct (find_box (live s) x) as [bx|] eqn:Ef.
    + apply find_box_Some in Ef.
      assert (Hne : r <> B bx).
      { intros E. subst r. simpl in Eo. rewrite (val_of_In _ _ _ Hnd Ef) in Eo. simpl in Eo.
        rewrite Nat.eqb_refl in Eo. discriminate. }
      pose proof (wf_erase s bx Hw (in_live_ids _ _ _ Ef)) as Hw1.
      pose proof (ref_live_erase s bx r Hr Hne) as Hr1.
      destruct (to_list_erase s bx x Hnd W3 Ef) as [Hx1 _].
      cbn [fst snd ref_live]. split.
      * eapply prims_step; [eapply prim_erase; eassumption|]. apply prims_one. apply prim_ins; assumption.
      * apply ins_box_live_new; [exact Hr1|]. destruct Hw1 as [W1' _]. apply (dwf_live_nodup _ W1').
    + apply find_box_None in Ef. cbn [fst snd ref_live]. split.
      * apply prims_one. apply prim_ins; assumption.
      * apply ins_box_live_new; assumption.
Qed.

Definition touched (e : edit) : list elt :=
  match e with
  | Append x => [x] | Extend xs => xs | InsAfter _ xs => xs | InsBefore _ xs => xs | Remove x => [x]
  end.

Lemma insert_many_prims U xs : forall r s,
  wf s -> ref_live s r -> (forall x, In x xs -> U x = false) -> prims U s (insert_many_after r xs s).
Proof.
  induction xs as [|x t IH]; intros r s Hw Hr Hu; simpl; [apply prims_refl|].
  destruct (insert_one_after r x s) as [s' r'] eqn:E.
  destruct (insert_one_prims U r x s Hw Hr (Hu x (or_introl eq_refl))) as [P1 R1]. rewrite E in *. simpl in *.
  eapply prims_trans; [exact P1|]. apply IH; [eapply prims_wf; eassumption|exact R1|].
  intros y Hy. apply Hu. right. exact Hy.
Qed.

Lemma last_ref_live s : ref_live s (last_ref (live s)).
Proof.
  unfold last_ref. destruct (rev (live s)) as [|p tl] eqn:E; simpl; [exact I|].
  apply in_ids_view with (fwd := false). simpl. rewrite E. left. reflexivity.
Qed.

Lemma extend_prims U xs : forall s, wf s -> (forall x, In x xs -> U x = false) -> prims U s (extend xs s).
Proof.
  unfold extend. induction xs as [|x t IH]; intros s Hw Hu; simpl; [apply prims_refl|].
  destruct (insert_one_prims U (last_ref (live s)) x s Hw (last_ref_live s) (Hu x (or_introl eq_refl))) as [P1 _].
  eapply prims_trans; [exact P1|]. apply IH; [eapply prims_wf; eassumption|].
  intros y Hy. apply Hu. right. exact Hy.
Qed.

Lemma pred_ref_live s b : In b (ids (live s)) -> NoDup (ids (live s)) -> ref_live s (pred_ref (live s) b).
Proof.
  intros Hb Hnd. unfold pred_ref, succ_ref.
  assert (Hb' : In b (ids (rev (live s)))) by (rewrite ids_rev; apply in_rev; rewrite rev_involutive; exact Hb).
  destruct (from_split _ _ Hb') as [l1 [x [l2 [E [N F]]]]]. unfold after. rewrite F. simpl.
  destruct l2 as [|p tl]; simpl; [exact I|].
  apply in_ids_view with (fwd := false). simpl. rewrite E, ids_app. apply in_or_app. right. right. left. reflexivity.
Qed.

Theorem apply_edit_prims U e s :
  wf s -> (forall x, In x (touched e) -> U x = false) -> prims U s (fst (apply_edit e s)).
Proof.
  intros Hw Hu. pose proof Hw as [W1 _]. pose proof (dwf_live_nodup _ W1) as Hnd. simpl in Hnd.
  destruct e as [x|xs|a xs|a xs|x]; simpl in *.
  - unfold append. apply insert_one_prims; [exact Hw|apply last_ref_live|]. apply Hu. left. reflexivity.
  - apply extend_prims; assumption.
  - destruct (find_box (live s) a) as [b|] eqn:Ef; simpl; [|apply prims_refl].
    apply find_box_Some in Ef. apply insert_many_prims; [exact Hw| |exact Hu].
    simpl. eapply in_live_ids. exact Ef.
  - destruct (find_box (live s) a) as [b|] eqn:Ef; simpl; [|apply prims_refl].
    apply find_box_Some in Ef. apply insert_many_prims; [exact Hw| |exact Hu].
    apply pred_ref_live; [eapply in_live_ids; exact Ef|exact Hnd].
  - destruct (find_box (live s) x) as [b|] eqn:Ef; simpl; [|apply prims_refl].
    apply find_box_Some in Ef. apply prims_one. eapply prim_erase; [exact Ef|]. apply Hu. left. reflexivity.
Qed.

Theorem apply_edit_wf e s : wf s -> wf (fst (apply_edit e s)).
Proof.
  intros Hw. apply (prims_wf (fun _ => false) s); [exact Hw|]. apply apply_edit_prims; [exact Hw|reflexivity].
Qed.

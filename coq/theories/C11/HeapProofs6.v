(* C11/HeapProofs6.v — the translated generators __iter__ / __reversed__ refine the model's cursor step. *)
From Coq Require Import List Arith ZArith Bool Lia.
From IRV Require Import Base.Exn C11.Model C11.Proofs C11.Proofs2 C11.Proofs3 C11.Proofs4 C11.Proofs5
  C11.Heap Gen.C11Gen C11.HeapRun C11.HeapProofs C11.HeapProofs2 C11.HeapProofs3.
Import ListNotations.

Lemma iter_scan_step f bx h :
  py_iter_scan (S f) bx h =
    if bx =? ROOT then (Ok None, h)
    else if negb (b_own (hbox h bx) =? SELF) then (Raise RuntimeError, h)
    else match b_val (hbox h bx) with
         | Some x => (Ok (Some (bx, x)), h)
         | None => py_iter_scan f (b_next (hbox h bx)) h
         end.
Proof.
  cbn [py_iter_scan]. unfold bind, get_own, get_val, py_iter_advance, get_next, ret, raise.
  destruct (bx =? ROOT); [reflexivity|]. cbn [negb].
  destruct (negb (b_own (hbox h bx) =? SELF)); [reflexivity|].
  destruct (b_val (hbox h bx)) eqn:Ev; cbn -[py_iter_scan py_rev_scan]; rewrite ?Ev; cbn -[py_iter_scan py_rev_scan]; rewrite ?Ev; reflexivity.
Qed.

Lemma rev_scan_step f bx h :
  py_rev_scan (S f) bx h =
    if bx =? ROOT then (Ok None, h)
    else match b_val (hbox h bx) with
         | Some x => (Ok (Some (bx, x)), h)
         | None => py_rev_scan f (b_prev (hbox h bx)) h
         end.
Proof.
  cbn [py_rev_scan]. unfold bind, get_val, py_rev_advance, get_prev, ret, raise.
  destruct (bx =? ROOT); [reflexivity|]. cbn [negb].
  destruct (b_val (hbox h bx)) eqn:Ev; cbn -[py_iter_scan py_rev_scan]; rewrite ?Ev; cbn -[py_iter_scan py_rev_scan]; rewrite ?Ev; reflexivity.
Qed.

Definition enc (o : cursor * option elt) : option (bid * elt) :=
  match o with (Parked b, Some x) => Some (S b, x) | _ => None end.
Definition cmap (c : cursor) : cursor := match c with Parked b => Parked (S b) | o => o end.

Lemma lookup_t_view fwd s b r :
  lookup_t (dt (view fwd s)) b = Some r ->
  exists p n, In (b, (p, n)) (tomb s) /\ r = if fwd then n else p.
Proof.
  destruct fwd; simpl; induction (tomb s) as [|[b0 [p0 n0]] t IH]; simpl; try discriminate.
  - destruct (b0 =? b) eqn:E.
    + apply Nat.eqb_eq in E. subst. intros H. inversion H; subst. exists p0, r. split; [left; reflexivity|reflexivity].
    + intros H. destruct (IH H) as [p [n [Hi Er]]]. exists p, n. split; [right; exact Hi|exact Er].
  - destruct (b0 =? b) eqn:E.
    + apply Nat.eqb_eq in E. subst. intros H. inversion H; subst. exists r, n0. split; [left; reflexivity|reflexivity].
    + intros H. destruct (IH H) as [p [n [Hi Er]]]. exists p, n. split; [right; exact Hi|exact Er].
Qed.

Lemma val_of_rev l b : NoDup (ids l) -> val_of (rev l) b = val_of l b.
Proof.
  intros Hnd. destruct (val_of l b) as [x|] eqn:E.
  - assert (Hi : In (b, x) l).
    { clear Hnd. induction l as [|p t IH]; simpl in E; [discriminate|]. destruct (fst p =? b) eqn:Eb.
      - apply Nat.eqb_eq in Eb. inversion E; subst. left. destruct p; reflexivity.
      - right. apply IH. exact E. }
    apply val_of_In; [rewrite ids_rev; apply NoDup_rev; exact Hnd|apply -> in_rev; exact Hi].
  - apply val_of_None in E. apply val_of_None. rewrite ids_rev. intros H. apply E. apply in_rev. exact H.
Qed.

Section Scan.
  Variables (h : heap) (s : st).
  Hypothesis HR : R h s.

  Lemma scan_fwd_refines : forall fm r out,
    scan (view true s) fm r = Some out -> forall fp, fm < fp -> py_iter_scan fp (rid r) h = (Ok (enc out), h).
  Proof.
    destruct HR as [Hw Hlive Htomb _ _ _ _].
    induction fm as [|fm IH]; intros r out Hs fp Hf; (destruct fp as [|fp]; [lia|]); rewrite iter_scan_step;
      destruct r as [|b]; simpl in Hs.
    - inversion Hs; subst. reflexivity.
    - change (rid (B b) =? ROOT) with false. cbv iota.
      destruct (val_of (live s) b) as [x|] eqn:Ev; [|discriminate]. inversion Hs; subst.
      rewrite (Hlive (B b) (val_of_Some _ _ _ Ev)). simpl. rewrite Ev. reflexivity.
    - inversion Hs; subst. reflexivity.
    - change (rid (B b) =? ROOT) with false. cbv iota.
      destruct (val_of (live s) b) as [x|] eqn:Ev.
      + inversion Hs; subst. rewrite (Hlive (B b) (val_of_Some _ _ _ Ev)). simpl. rewrite Ev. reflexivity.
      + destruct (lookup_t (map (fun e => (fst e, snd (snd e))) (tomb s)) b) as [r'|] eqn:El; [|discriminate].
        destruct (lookup_t_view true s b r' El) as [p [n [Hi Er]]]. subst r'.
        simpl rid. rewrite (Htomb b p n Hi). simpl. apply IH; [exact Hs|lia].
  Qed.

  Lemma scan_bwd_refines : forall fm r out,
    scan (view false s) fm r = Some out -> forall fp, fm < fp -> py_rev_scan fp (rid r) h = (Ok (enc out), h).
  Proof.
    destruct HR as [Hw Hlive Htomb _ _ _ _]. destruct (wf_nodups s Hw) as [Hnd _].
    induction fm as [|fm IH]; intros r out Hs fp Hf; (destruct fp as [|fp]; [lia|]); rewrite rev_scan_step;
      destruct r as [|b]; simpl in Hs.
    - inversion Hs; subst. reflexivity.
    - change (rid (B b) =? ROOT) with false. cbv iota. rewrite (val_of_rev _ _ Hnd) in Hs.
      destruct (val_of (live s) b) as [x|] eqn:Ev; [|discriminate]. inversion Hs; subst.
      rewrite (Hlive (B b) (val_of_Some _ _ _ Ev)). simpl. rewrite Ev. reflexivity.
    - inversion Hs; subst. reflexivity.
    - change (rid (B b) =? ROOT) with false. cbv iota. rewrite (val_of_rev _ _ Hnd) in Hs.
      destruct (val_of (live s) b) as [x|] eqn:Ev.
      + inversion Hs; subst. rewrite (Hlive (B b) (val_of_Some _ _ _ Ev)). simpl. rewrite Ev. reflexivity.
      + destruct (lookup_t (map (fun e => (fst e, fst (snd e))) (tomb s)) b) as [r'|] eqn:El; [|discriminate].
        destruct (lookup_t_view false s b r' El) as [p [n [Hi Er]]]. subst r'.
        simpl rid. rewrite (Htomb b p n Hi). simpl. apply IH; [exact Hs|lia].
  Qed.
End Scan.

Lemma scan_shape ds : forall f r out, scan ds f r = Some out ->
  out = (Done, None) \/ exists b x, out = (Parked b, Some x).
Proof.
  induction f as [|f IH]; intros r out H; destruct r as [|b]; simpl in H.
  - inversion H. left. reflexivity.
  - destruct (val_of (dl ds) b) as [x|]; [|discriminate]. inversion H. right. exists b, x. reflexivity.
  - inversion H. left. reflexivity.
  - destruct (val_of (dl ds) b) as [x|]; [inversion H; right; exists b, x; reflexivity|].
    destruct (lookup_t (dt ds) b) as [r'|]; [|discriminate]. apply (IH _ _ H).
Qed.

Lemma tomb_len s : wf s -> length (tomb s) <= nid s.
Proof.
  intros [W1 [_ [_ [_ W5]]]]. destruct W1 as [Hnd _]. simpl in Hnd. apply NoDup_app_inv in Hnd.
  destruct Hnd as [_ [Hnt _]]. unfold tids in Hnt. rewrite map_map in Hnt. simpl in Hnt.
  assert (Hl : length (map fst (tomb s)) <= length (seq 0 (nid s))).
  { apply NoDup_incl_length; [exact Hnt|]. intros b Hb. apply in_seq. split; [lia|]. simpl. apply W5. right. exact Hb. }
  rewrite map_length, seq_length in Hl. exact Hl.
Qed.

Definition fin (r : res (option (bid * elt))) : res (cursor * option elt) :=
  match r with
  | Ok (Some (b, x)) => Ok (Parked b, Some x)
  | Ok None => Ok (Done, None)
  | Raise e => Raise e
  end.

Lemma fin_enc out : (out = (Done, None) \/ exists b x, out = (Parked b, Some x)) ->
  fin (Ok (enc out)) = Ok (cmap (fst out), snd out).
Proof. intros [E|[b [x E]]]; subst; reflexivity. Qed.

(* THE ITERATOR REFINEMENT: next() of the translated generators = the model's cursor step *)
Theorem hstep_refines fwd h s c c' y :
  R h s -> step fwd s c = Some (c', y) -> hstep fwd h (cmap c) = Ok (cmap c', y).
Proof.
  intros HR Hs. pose proof HR as [Hw Hlive Htomb _ Hnew _ _]. destruct (wf_nodups s Hw) as [Hnd _].
  pose proof (tomb_len s Hw) as Hlen.
  assert (Hfuel : forall f, length (dt (view f s)) < S (hnew h)).
  { intros f. destruct f; simpl; rewrite map_length, Hnew; lia. }
  unfold step in Hs. destruct c as [|b|]; simpl in Hs.
  - (* Fresh *)
    pose proof (scan_shape _ _ _ _ Hs) as Hsh.
    change (cmap Fresh) with Fresh. unfold hstep. fold fin.
    destruct fwd.
    + change (dl (view true s)) with (live s) in Hs.
      rewrite (bind_ok py_iter_first _ h (rid (head_ref (live s))) h)
        by (unfold py_iter_first, bind, get_next, ret; change ROOT with (rid Root); rewrite (Hlive Root I); reflexivity).
      rewrite (scan_fwd_refines h s HR _ _ _ Hs _ (Hfuel true)). cbn [fst]. apply (fin_enc (c', y) Hsh).
    + change (head_ref (dl (view false s))) with (last_ref (live s)) in Hs.
      rewrite (bind_ok py_rev_first _ h (rid (last_ref (live s))) h)
        by (unfold py_rev_first, bind, get_prev, ret; change ROOT with (rid Root); rewrite (Hlive Root I); reflexivity).
      rewrite (scan_bwd_refines h s HR _ _ _ Hs _ (Hfuel false)). cbn [fst]. apply (fin_enc (c', y) Hsh).
  - (* Parked b *)
    destruct (rd_next (view fwd s) b) as [r|] eqn:Er; [|discriminate].
    pose proof (scan_shape _ _ _ _ Hs) as Hsh.
    change (cmap (Parked b)) with (Parked (S b)). unfold hstep. fold fin.
    unfold rd_next in Er.
    assert (Hadv : (if fwd then b_next (hbox h (S b)) else b_prev (hbox h (S b))) = rid r).
    { destruct (livb (dl (view fwd s)) b) eqn:L.
      - apply livb_In in L. apply in_ids_view in L. inversion Er; subst r.
        change (S b) with (rid (B b)). rewrite (Hlive (B b) L). destruct fwd; reflexivity.
      - destruct (lookup_t_view fwd s b r Er) as [p [n [Hi E]]]. rewrite (Htomb b p n Hi). subst r. destruct fwd; reflexivity. }
    destruct fwd.
    + rewrite (bind_ok (py_iter_advance (S b)) _ h (rid r) h)
        by (unfold py_iter_advance, bind, get_next, ret; rewrite Hadv; reflexivity).
      rewrite (scan_fwd_refines h s HR _ _ _ Hs _ (Hfuel true)). cbn [fst]. apply (fin_enc (c', y) Hsh).
    + rewrite (bind_ok (py_rev_advance (S b)) _ h (rid r) h)
        by (unfold py_rev_advance, bind, get_prev, ret; rewrite Hadv; reflexivity).
      rewrite (scan_bwd_refines h s HR _ _ _ Hs _ (Hfuel false)). cbn [fst]. apply (fin_enc (c', y) Hsh).
  - inversion Hs; subst. reflexivity.
Qed.

(* list(it) through the translated generator = the model's future of the cursor; in particular list(g) and
   list(reversed(g)) read back the model's sequence *)
Lemma hdrain_refines fwd h s : R h s -> forall fuel c,
  cv fwd s c -> length (futE fwd s c) < fuel -> hdrain fwd h fuel (cmap c) = Some (futE fwd s c).
Proof.
  intros HR. pose proof HR as [Hw _ _ _ _ _ _].
  induction fuel as [|f IH]; intros c Hc Hn; [lia|]. cbn [hdrain].
  destruct (step_cases fwd s c Hw Hc) as [[Ef Es]|[b [x [Es [Ef [_ [Hcb _]]]]]]].
  - rewrite (hstep_refines fwd h s c Done None HR Es). rewrite Ef. reflexivity.
  - rewrite (hstep_refines fwd h s c (Parked b) (Some x) HR Es).
    change (cmap (Parked b)) with (Parked (S b)).
    change (Parked (S b)) with (cmap (Parked b)).
    rewrite IH; [rewrite Ef; reflexivity|exact Hcb|]. rewrite Ef in Hn. simpl in Hn. lia.
Qed.

Lemma live_len s : wf s -> length (live s) <= nid s.
Proof.
  intros Hw. destruct (wf_nodups s Hw) as [Hnd _]. destruct Hw as [_ [_ [_ [_ W5]]]].
  assert (Hl : length (ids (live s)) <= length (seq 0 (nid s))).
  { apply NoDup_incl_length; [exact Hnd|]. intros b Hb. apply in_seq. split; [lia|]. simpl. apply W5. left. exact Hb. }
  unfold ids in Hl. rewrite map_length, seq_length in Hl. exact Hl.
Qed.

Theorem hlist_of_refines fwd h s : R h s -> hlist_of fwd h = Some (dir fwd (to_list s)) /\ hlen h = Z.of_nat (length (to_list s)).
Proof.
  intros HR. pose proof HR as [Hw _ _ Hlen Hnew _ _]. split.
  - unfold hlist_of. change Fresh with (cmap Fresh). rewrite (hdrain_refines fwd h s HR); [rewrite futE_fresh; reflexivity|exact I|].
    pose proof (futE_length fwd s Fresh Hw). pose proof (live_len s Hw). rewrite Hnew. lia.
  - rewrite Hlen. destruct Hw as [_ [_ [_ [W4 _]]]]. rewrite W4. unfold to_list. rewrite map_length. reflexivity.
Qed.

(* C11/Proofs5.v — position laws: where an inserted node lands relative to a suspended iterator. *)
From Coq Require Import List Arith ZArith Bool Lia Permutation.
From IRV Require Import Base.Exn C11.Model C11.Proofs C11.Proofs2 C11.Proofs3 C11.Proofs4.
Import ListNotations.

Lemma ins_cond_same (l2 : boxes) a : ins_cond l2 l2 a = a.
Proof. unfold ins_cond. rewrite Nat.ltb_irrefl, Nat.eqb_refl. reflexivity. Qed.

(* A: the gap right behind the box the cursor is attached to -> the new box is the very next one *)
Lemma fut_ins_at_anchor l1 l2 t bx c :
  dwf (mkD (l1 ++ l2) t) -> ~ In (fst bx) (ids (l1 ++ l2) ++ tids t) ->
  (c = Fresh /\ l1 = []) \/ (exists l1' b y, l1 = l1' ++ [(b, y)] /\ c = Parked b) ->
  fut (mkD (l1 ++ bx :: l2) t) c = bx :: fut (mkD (l1 ++ l2) t) c.
Proof.
  intros Hw Hf Hc. pose proof (dwf_live_nodup _ Hw) as Hnd. simpl in Hnd.
  assert (Hv : cvalid (mkD (l1 ++ l2) t) c).
  { destruct Hc as [[E _]|[l1' [b [y [E1 E2]]]]]; subst; simpl; [exact I|].
    left. rewrite !ids_app. simpl. apply in_or_app. left. apply in_or_app. right. left. reflexivity. }
  rewrite (fut_ins l1 l2 t bx c Hw Hf Hv). cbv zeta.
  assert (Ef : fut (mkD (l1 ++ l2) t) c = l2 /\ anch (mkD (l1 ++ l2) t) c = true).
  { destruct Hc as [[E1 E2]|[l1' [b [y [E1 E2]]]]]; subst; simpl; [split; reflexivity|].
    rewrite <- app_assoc in Hnd. simpl in Hnd. destruct (NoDup_mid_notin _ _ _ _ Hnd) as [N1 _].
    assert (L : livb ((l1' ++ [(b, y)]) ++ l2) b = true).
    { apply livb_In. rewrite !ids_app. simpl. apply in_or_app. left. apply in_or_app. right. left. reflexivity. }
    rewrite L. split; [|reflexivity]. rewrite <- app_assoc. simpl. apply after_mid. exact N1. }
  destruct Ef as [Ef Ea]. rewrite Ef, Ea, ins_cond_same, Nat.sub_diag. reflexivity.
Qed.

(* B: the gap right in front of the box the cursor is parked on -> skipped *)
Lemma fut_ins_before_parked l1 b y l2 t bx :
  dwf (mkD (l1 ++ (b, y) :: l2) t) -> ~ In (fst bx) (ids (l1 ++ (b, y) :: l2) ++ tids t) ->
  fut (mkD (l1 ++ bx :: (b, y) :: l2) t) (Parked b) = fut (mkD (l1 ++ (b, y) :: l2) t) (Parked b).
Proof.
  intros Hw Hf. pose proof (dwf_live_nodup _ Hw) as Hnd. simpl in Hnd.
  assert (Hv : cvalid (mkD (l1 ++ (b, y) :: l2) t) (Parked b)).
  { simpl. left. rewrite ids_app. simpl. apply in_or_app. right. left. reflexivity. }
  rewrite (fut_ins l1 ((b, y) :: l2) t bx (Parked b) Hw Hf Hv). cbv zeta.
  assert (Ef : fut (mkD (l1 ++ (b, y) :: l2) t) (Parked b) = l2).
  { simpl. destruct (NoDup_mid_notin _ _ _ _ Hnd) as [N1 _].
    assert (L : livb (l1 ++ (b, y) :: l2) b = true).
    { apply livb_In. rewrite ids_app. simpl. apply in_or_app. right. left. reflexivity. }
    rewrite L. apply after_mid. exact N1. }
  rewrite Ef. destruct (ins_cond_short [] (b, y) l2) as [_ Hs]. simpl in Hs. rewrite Hs. reflexivity.
Qed.

(* C: the cursor's box was erased and its chain ends at the box right behind the gap -> skipped
   (the documented reading: a node put at the removed node's old place is "before" the position) *)
Lemma fut_ins_detached_gap l1 l2 t bx b0 :
  dwf (mkD (l1 ++ l2) t) -> ~ In (fst bx) (ids (l1 ++ l2) ++ tids t) ->
  In b0 (tids t) -> resolve t (B b0) = head_ref l2 ->
  fut (mkD (l1 ++ bx :: l2) t) (Parked b0) = fut (mkD (l1 ++ l2) t) (Parked b0).
Proof.
  intros Hw Hf Hb Hr. pose proof (dwf_live_nodup _ Hw) as Hnd. simpl in Hnd.
  assert (Hv : cvalid (mkD (l1 ++ l2) t) (Parked b0)) by (simpl; right; exact Hb).
  rewrite (fut_ins l1 l2 t bx (Parked b0) Hw Hf Hv). cbv zeta.
  assert (L : livb (l1 ++ l2) b0 = false).
  { apply livb_false. exact (dwf_tids_not_live _ Hw b0 Hb). }
  assert (Ef : fut (mkD (l1 ++ l2) t) (Parked b0) = l2).
  { simpl. rewrite L, Hr. apply from_ref_suffix. exact Hnd. }
  rewrite Ef. simpl. rewrite L, ins_cond_same. reflexivity.
Qed.

(* D: moving the current node (erase + re-insert anywhere): the node that followed it at its original
   place is still the next one *)
Lemma fut_move_current ds b l1 l2 bx :
  dwf ds -> In b (ids (dl ds)) -> rm_box b (dl ds) = l1 ++ l2 ->
  ~ In (fst bx) (ids (dl ds) ++ tids (dt ds)) ->
  hd_error (fut (mkD (l1 ++ bx :: l2) (dt (d_erase b ds))) (Parked b)) = hd_error (fut ds (Parked b)).
Proof.
  intros Hw Hb El Hf. pose proof (dwf_live_nodup _ Hw) as Hnd.
  pose proof (dwf_erase ds b Hw Hb) as Hw1. unfold d_erase in Hw1. rewrite El in Hw1.
  assert (Hf1 : ~ In (fst bx) (ids (l1 ++ l2) ++ tids (dt ds ++ [(b, succ_ref (dl ds) b)]))).
  { rewrite <- El, tids_app. simpl. intros H. apply Hf. apply in_app_or in H. apply in_or_app.
    destruct H as [H|H]; [left; apply in_ids_rm_box in H; tauto|].
    apply in_app_or in H. destruct H as [H|[H|[]]]; [right; exact H|left; congruence]. }
  assert (Hv : cvalid (mkD (l1 ++ l2) (dt ds ++ [(b, succ_ref (dl ds) b)])) (Parked b)).
  { simpl. right. rewrite tids_app. apply in_or_app. right. left. reflexivity. }
  unfold d_erase. cbn [dt]. rewrite (fut_ins l1 l2 _ bx (Parked b) Hw1 Hf1 Hv). cbv zeta.
  assert (Ee : fut (mkD (l1 ++ l2) (dt ds ++ [(b, succ_ref (dl ds) b)])) (Parked b) = fut ds (Parked b)).
  { pose proof (fut_erase ds b (Parked b) Hw Hb) as H. unfold d_erase in H. rewrite El in H. rewrite H.
    apply rm_box_notin. simpl. assert (L : livb (dl ds) b = true) by (apply livb_In; exact Hb). rewrite L.
    destruct (from_split _ _ Hb) as [k1 [x [k2 [E [N F]]]]]. unfold after. rewrite F. simpl.
    rewrite E in Hnd. apply NoDup_mid_notin in Hnd. tauto. }
  rewrite Ee.
  assert (La : anch (mkD (l1 ++ l2) (dt ds ++ [(b, succ_ref (dl ds) b)])) (Parked b) = false).
  { simpl. apply livb_false. rewrite <- El. rewrite in_ids_rm_box. tauto. }
  rewrite La. unfold ins_cond. rewrite andb_false_r, orb_false_r.
  destruct (length l2 <? length (fut ds (Parked b))) eqn:E; [|reflexivity].
  apply Nat.ltb_lt in E. remember (fut ds (Parked b)) as ff. destruct ff as [|p f]; [simpl in E; lia|].
  remember (length (p :: f) - length l2) as k. destruct k as [|k]; [lia|]. reflexivity.
Qed.

(* ---------- the same laws through the public API *)
Lemma find_box_In l b a : NoDup (map snd l) -> In (b, a) l -> find_box l a = Some b.
Proof.
  induction l as [|p t IH]; simpl; [intros _ []|]. intros Hn [H|H].
  - subst p. simpl. rewrite Nat.eqb_refl. reflexivity.
  - inversion Hn as [|? ? Hx Hn']; subst. destruct (snd p =? a) eqn:E.
    + apply Nat.eqb_eq in E. exfalso. apply Hx. rewrite E. apply (in_map snd) in H. exact H.
    + apply IH; assumption.
Qed.

Lemma val_ref_in s r y : val_ref (live s) r = Some y -> In y (to_list s).
Proof.
  destruct r as [|b]; simpl; [discriminate|]. intros H. unfold to_list.
  induction (live s) as [|p t IH]; simpl in *; [discriminate|].
  destruct (fst p =? b); [inversion H; left; reflexivity|right; apply IH; exact H].
Qed.

Lemma insert_one_fresh r x s :
  ~ In x (to_list s) -> fst (insert_one_after r x s) = ins_box r x s.
Proof.
  intros Hx. unfold insert_one_after.
  destruct (option_eqb Nat.eqb (val_ref (live s) r) (Some x)) eqn:Eo.
  - apply option_eqb_nat_eq in Eo. apply val_ref_in in Eo. contradiction.
  - assert (Ef : find_box (live s) x = None) by (apply find_box_None; exact Hx). rewrite Ef. reflexivity.
Qed.

Lemma ins_after_fresh_eq s a b x :
  wf s -> In (b, a) (live s) -> ~ In x (to_list s) -> fst (apply_edit (InsAfter a [x]) s) = ins_box (B b) x s.
Proof.
  intros Hw Hi Hx. destruct (wf_nodups s Hw) as [_ Hnx]. simpl.
  rewrite (find_box_In _ _ _ Hnx Hi). simpl.
  pose proof (insert_one_fresh (B b) x s Hx) as E. destruct (insert_one_after (B b) x s). simpl in E. exact E.
Qed.

Lemma ins_before_fresh_eq s a b x :
  wf s -> In (b, a) (live s) -> ~ In x (to_list s) ->
  fst (apply_edit (InsBefore a [x]) s) = ins_box (pred_ref (live s) b) x s.
Proof.
  intros Hw Hi Hx. destruct (wf_nodups s Hw) as [_ Hnx]. simpl.
  rewrite (find_box_In _ _ _ Hnx Hi). simpl.
  pose proof (insert_one_fresh (pred_ref (live s) b) x s Hx) as E.
  destruct (insert_one_after (pred_ref (live s) b) x s). simpl in E. exact E.
Qed.

Lemma ins_after_box_mid k1 q k2 bx :
  ~ In (fst q) (ids k1) -> ins_after_box (k1 ++ q :: k2) (fst q) bx = k1 ++ q :: bx :: k2.
Proof.
  induction k1 as [|p t IH]; simpl; intros N.
  - rewrite Nat.eqb_refl. reflexivity.
  - destruct (fst p =? fst q) eqn:E.
    + apply Nat.eqb_eq in E. exfalso. apply N. left. exact E.
    + f_equal. apply IH. intros H. apply N. right. exact H.
Qed.

Lemma ins_at_last k1 k2 bx :
  NoDup (ids (k1 ++ k2)) -> ins_after_ref (k1 ++ k2) (last_ref k1) bx = k1 ++ bx :: k2.
Proof.
  intros Hnd. unfold last_ref. destruct (rev k1) as [|q tq] eqn:Er.
  - assert (k1 = []) by (rewrite <- (rev_involutive k1), Er; reflexivity). subst. reflexivity.
  - assert (E : k1 = rev tq ++ [q]) by (rewrite <- (rev_involutive k1), Er; reflexivity).
    subst k1. simpl. rewrite <- !app_assoc. simpl. rewrite ins_after_box_mid; [reflexivity|].
    rewrite <- app_assoc in Hnd. simpl in Hnd. destruct q as [qb qx]. apply NoDup_mid_notin in Hnd.
    simpl in *. tauto.
Qed.

Section ApiLaws.
  Variables (s : st) (a x : elt) (b : bid).
  Hypothesis Hw : wf s.
  Hypothesis Hi : In (b, a) (live s).        (* the iterator is parked on node a (box b), still in the graph *)
  Hypothesis Hx : ~ In x (to_list s).        (* x is a new node *)

  Lemma api_split : exists k1 k2, live s = k1 ++ (b, a) :: k2 /\ ~ In b (ids k1) /\ ~ In b (ids k2).
  Proof.
    destruct (wf_nodups s Hw) as [Hnd Hnx].
    destruct (split_live _ _ _ Hnd Hnx Hi) as [k1 [k2 [E [N1 [N2 _]]]]]. exists k1, k2. tauto.
  Qed.

  Lemma api_fresh : ~ In (nid s) (ids (live s) ++ map fst (tomb s)).
  Proof. destruct Hw as [_ [_ [_ [_ W5]]]]. apply fresh_nid. exact W5. Qed.

  Lemma api_fresh_rev l : ids l = ids (live s) \/ (forall i, In i (ids l) <-> In i (ids (live s))) ->
    forall fwd, ~ In (nid s) (ids l ++ tids (dt (view fwd s))).
  Proof.
    intros Hl fwd H. apply api_fresh. rewrite view_tids in H. apply in_app_or in H. apply in_or_app.
    destruct H as [H|H]; [left|right; exact H]. destruct Hl as [Hl|Hl]; [rewrite <- Hl; exact H|apply Hl; exact H].
  Qed.

  Lemma rev_ids_iff (l : boxes) : forall i, In i (ids (rev l)) <-> In i (ids l).
  Proof. intros i. rewrite ids_rev. symmetry. apply in_rev. Qed.

  (* insert_after(current, x): a forward iterator yields x next, a backward iterator never sees it *)
  Theorem api_fwd_after_current :
    futE true (fst (apply_edit (InsAfter a [x]) s)) (Parked b) = x :: futE true s (Parked b).
  Proof.
    rewrite (ins_after_fresh_eq s a b x Hw Hi Hx). destruct api_split as [k1 [k2 [E [N1 N2]]]].
    destruct (wf_nodups s Hw) as [Hnd _].
    assert (E' : live s = (k1 ++ [(b, a)]) ++ k2) by (rewrite <- app_assoc; exact E).
    assert (Ei : ins_after_ref (live s) (B b) (nid s, x) = (k1 ++ [(b, a)]) ++ (nid s, x) :: k2).
    { simpl. rewrite E. change b with (fst (b, a)) at 2. rewrite ins_after_box_mid by exact N1.
      rewrite <- app_assoc. reflexivity. }
    destruct (view_ins (B b) x s _ _ E' Ei) as [V1 [_ [V3 _]]]. unfold futE. rewrite V1. rewrite V3 at 2.
    pose proof (wf_dwf true s Hw) as Hd. rewrite V3 in Hd.
    rewrite fut_ins_at_anchor; [reflexivity|exact Hd| |].
    - apply api_fresh_rev. left. rewrite E'. reflexivity.
    - right. exists k1, b, a. split; reflexivity.
  Qed.

  Theorem api_bwd_after_current :
    futE false (fst (apply_edit (InsAfter a [x]) s)) (Parked b) = futE false s (Parked b).
  Proof.
    rewrite (ins_after_fresh_eq s a b x Hw Hi Hx). destruct api_split as [k1 [k2 [E [N1 N2]]]].
    assert (E' : live s = (k1 ++ [(b, a)]) ++ k2) by (rewrite <- app_assoc; exact E).
    assert (Ei : ins_after_ref (live s) (B b) (nid s, x) = (k1 ++ [(b, a)]) ++ (nid s, x) :: k2).
    { simpl. rewrite E. change b with (fst (b, a)) at 2. rewrite ins_after_box_mid by exact N1.
      rewrite <- app_assoc. reflexivity. }
    destruct (view_ins (B b) x s _ _ E' Ei) as [_ [V2 [_ V4]]]. unfold futE. rewrite V2. rewrite V4 at 2.
    pose proof (wf_dwf false s Hw) as Hd. rewrite V4 in Hd.
    rewrite rev_app_distr in *. change (rev [(b, a)] ++ rev k1) with ((b, a) :: rev k1) in *.
    rewrite fut_ins_before_parked; [reflexivity|exact Hd|].
    apply api_fresh_rev. right. intros i. rewrite E.
    rewrite !ids_app. simpl. rewrite !in_app_iff. simpl. rewrite !ids_rev, <- !in_rev. tauto.
  Qed.

  (* insert_before(current, x): a forward iterator never sees x, a backward iterator yields it next *)
  Theorem api_fwd_before_current :
    futE true (fst (apply_edit (InsBefore a [x]) s)) (Parked b) = futE true s (Parked b).
  Proof.
    rewrite (ins_before_fresh_eq s a b x Hw Hi Hx). destruct api_split as [k1 [k2 [E [N1 N2]]]].
    destruct (wf_nodups s Hw) as [Hnd _].
    assert (Ep : pred_ref (live s) b = last_ref k1) by (rewrite E; apply pred_ref_mid; exact N2).
    assert (Ei : ins_after_ref (live s) (pred_ref (live s) b) (nid s, x) = k1 ++ (nid s, x) :: (b, a) :: k2).
    { rewrite Ep, E. apply ins_at_last. rewrite <- E. exact Hnd. }
    destruct (view_ins _ x s _ _ E Ei) as [V1 [_ [V3 _]]]. unfold futE. rewrite V1. rewrite V3 at 2.
    pose proof (wf_dwf true s Hw) as Hd. rewrite V3 in Hd.
    rewrite fut_ins_before_parked; [reflexivity|exact Hd|].
    apply api_fresh_rev. left. rewrite E. reflexivity.
  Qed.

  Theorem api_bwd_before_current :
    futE false (fst (apply_edit (InsBefore a [x]) s)) (Parked b) = x :: futE false s (Parked b).
  Proof.
    rewrite (ins_before_fresh_eq s a b x Hw Hi Hx). destruct api_split as [k1 [k2 [E [N1 N2]]]].
    destruct (wf_nodups s Hw) as [Hnd _].
    assert (Ep : pred_ref (live s) b = last_ref k1) by (rewrite E; apply pred_ref_mid; exact N2).
    assert (Ei : ins_after_ref (live s) (pred_ref (live s) b) (nid s, x) = k1 ++ (nid s, x) :: (b, a) :: k2).
    { rewrite Ep, E. apply ins_at_last. rewrite <- E. exact Hnd. }
    destruct (view_ins _ x s _ _ E Ei) as [_ [V2 [_ V4]]]. unfold futE. rewrite V2. rewrite V4 at 2.
    pose proof (wf_dwf false s Hw) as Hd. rewrite V4 in Hd.
    change (rev ((b, a) :: k2)) with (rev k2 ++ [(b, a)]) in *.
    rewrite fut_ins_at_anchor; [reflexivity|exact Hd| |].
    - apply api_fresh_rev. right. intros i. rewrite E.
      rewrite !ids_app. simpl. rewrite !in_app_iff. simpl. rewrite !ids_rev, <- !in_rev. tauto.
    - right. exists (rev k2), b, a. split; reflexivity.
  Qed.
End ApiLaws.

(* removing a node deletes exactly that node from what every iterator will still yield *)
Lemma map_snd_rm_box b x (f : boxes) :
  (forall p, In p f -> (fst p = b <-> snd p = x)) -> map snd (rm_box b f) = l_remove x (map snd f).
Proof.
  intros Hf. induction f as [|p t IH]; [reflexivity|]. rewrite rm_box_cons. unfold l_remove. simpl.
  assert (IH' := IH (fun q Hq => Hf q (or_intror Hq))). unfold l_remove in IH'.
  pose proof (Hf p (or_introl eq_refl)) as Hp.
  destruct (fst p =? b) eqn:E1; destruct (snd p =? x) eqn:E2; simpl.
  - exact IH'.
  - apply Nat.eqb_eq in E1. apply Nat.eqb_neq in E2. tauto.
  - apply Nat.eqb_neq in E1. apply Nat.eqb_eq in E2. tauto.
  - f_equal. exact IH'.
Qed.

Theorem api_remove_law fwd s x c :
  wf s -> In x (to_list s) ->
  futE fwd (fst (apply_edit (Remove x) s)) c = l_remove x (futE fwd s c).
Proof.
  intros Hw Hx. destruct (wf_nodups s Hw) as [Hnd Hnx]. simpl.
  destruct (find_box (live s) x) as [b|] eqn:Ef; [|apply find_box_None in Ef; contradiction].
  apply find_box_Some in Ef. simpl. unfold futE. rewrite view_erase.
  pose proof (wf_dwf fwd s Hw) as Hd.
  rewrite fut_erase; [|exact Hd|apply in_ids_view; eapply in_live_ids; exact Ef].
  apply map_snd_rm_box. intros p Hp.
  destruct (fut_suffix (view fwd s) c Hd) as [pre Epre].
  assert (Hin : In p (live s)).
  { assert (H : In p (dl (view fwd s))) by (rewrite Epre; apply in_or_app; right; exact Hp).
    rewrite view_dl in H. destruct fwd; [exact H|apply in_rev; exact H]. }
  destruct p as [pb px]. simpl. split; intros E; subst.
  - exact (nodup_ids_fun _ _ _ _ Hnd Hin Ef).
  - destruct (split_live _ _ _ Hnd Hnx Ef) as [l1 [l2 [E [N1 [N2 [X1 X2]]]]]].
    rewrite E in Hin. apply in_app_or in Hin. destruct Hin as [H|[H|H]].
    + exfalso. apply X1. apply (in_map snd) in H. exact H.
    + congruence.
    + exfalso. apply X2. apply (in_map snd) in H. exact H.
Qed.

(* in particular the iterator parked on the removed node keeps its future: it resumes with the node
   that followed the removed one at its original place *)
Theorem api_remove_current fwd s x b :
  wf s -> In (b, x) (live s) ->
  futE fwd (fst (apply_edit (Remove x) s)) (Parked b) = futE fwd s (Parked b).
Proof.
  intros Hw Hi. destruct (wf_nodups s Hw) as [Hnd Hnx].
  rewrite api_remove_law; [|exact Hw|apply (in_map snd) in Hi; exact Hi].
  apply l_remove_notin. unfold futE. simpl.
  pose proof (wf_dwf fwd s Hw) as Hd. pose proof (dwf_live_nodup _ Hd) as Hndv.
  assert (Hb : In b (ids (dl (view fwd s)))) by (apply in_ids_view; eapply in_live_ids; exact Hi).
  assert (L : livb (dl (view fwd s)) b = true) by (apply livb_In; exact Hb). rewrite L.
  destruct (from_split _ _ Hb) as [k1 [y [k2 [E [N F]]]]]. unfold after. rewrite F. simpl.
  intros Hin. apply in_map_iff in Hin. destruct Hin as [[qb qx] [Eq Hq]]. simpl in Eq. subst qx.
  assert (Hq' : In (qb, x) (live s)).
  { assert (H : In (qb, x) (dl (view fwd s))) by (rewrite E; apply in_or_app; right; right; exact Hq).
    rewrite view_dl in H. destruct fwd; [exact H|apply in_rev; exact H]. }
  destruct (split_live _ _ _ Hnd Hnx Hi) as [l1 [l2 [E' [N1 [N2 [X1 X2]]]]]].
  assert (qb = b).
  { rewrite E' in Hq'. apply in_app_or in Hq'. destruct Hq' as [H|[H|H]].
    - exfalso. apply X1. apply (in_map snd) in H. exact H.
    - congruence.
    - exfalso. apply X2. apply (in_map snd) in H. exact H. }
  subst qb. rewrite E in Hndv. apply NoDup_mid_notin in Hndv. destruct Hndv as [_ Hn2].
  apply Hn2. apply (in_map fst) in Hq. exact Hq.
Qed.

Lemma hd_error_map (l : boxes) : hd_error (map snd l) = option_map snd (hd_error l).
Proof. destruct l; reflexivity. Qed.

(* moving the current node: whatever the new place, the next node is the old successor *)
Theorem move_current_law fwd s b x r :
  wf s -> In (b, x) (live s) -> ref_live (erase_box b s) r ->
  hd_error (futE fwd (ins_box r x (erase_box b s)) (Parked b)) = hd_error (futE fwd s (Parked b)).
Proof.
  intros Hw Hi Hr. pose proof (wf_erase s b Hw (in_live_ids _ _ _ Hi)) as Hw1.
  destruct (wf_nodups _ Hw1) as [Hnd1 _].
  destruct (ins_after_ref_split (live (erase_box b s)) r (nid (erase_box b s), x) Hr Hnd1) as [l1 [l2 [E [Ei _]]]].
  destruct (view_ins r x (erase_box b s) l1 l2 E Ei) as [V1 [V2 _]].
  pose proof (wf_dwf fwd s Hw) as Hd.
  assert (Hb : In b (ids (dl (view fwd s)))) by (apply in_ids_view; eapply in_live_ids; exact Hi).
  assert (Hf : ~ In (nid s) (ids (dl (view fwd s)) ++ tids (dt (view fwd s)))).
  { rewrite view_tids. destruct Hw as [_ [_ [_ [_ W5]]]]. intros H. apply (fresh_nid s W5).
    apply in_app_or in H. apply in_or_app. destruct H as [H|H]; [left; apply in_ids_view in H; exact H|right; exact H]. }
  change (nid (erase_box b s)) with (nid s) in *.
  unfold futE. rewrite !hd_error_map. f_equal.
  destruct fwd.
  - rewrite V1. rewrite view_erase.
    apply (fut_move_current (view true s) b l1 l2 (nid s, x) Hd Hb); [exact E|exact Hf].
  - rewrite V2. rewrite view_erase.
    apply (fut_move_current (view false s) b (rev l2) (rev l1) (nid s, x) Hd Hb); [|exact Hf].
    unfold erase_box in E. simpl in E. simpl. rewrite rm_box_rev, E, rev_app_distr. reflexivity.
Qed.

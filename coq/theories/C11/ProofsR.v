(* C11/ProofsR.v — RecursiveGraphIterator: never stuck, yields only nodes of their graph, step law against
   the pre-order traversal `rfut`, termination once edits stop. *)
From Coq Require Import List Arith ZArith Bool Lia.
From IRV Require Import Base.Exn C11.Model C11.Proofs C11.Proofs2 C11.Proofs3.
Import ListNotations.

Lemma upd_same gs g s : upd gs g s g = s.
Proof. unfold upd. rewrite Nat.eqb_refl. reflexivity. Qed.
Lemma upd_other gs g s h : h <> g -> upd gs g s h = gs h.
Proof. intros H. unfold upd. apply Nat.eqb_neq in H. rewrite H. reflexivity. Qed.

Lemma futE_subset fwd s c x : wf s -> In x (futE fwd s c) -> In x (to_list s).
Proof.
  intros Hw Hx. unfold futE in Hx. apply in_map_iff in Hx. destruct Hx as [p [E Hp]]. subst x.
  destruct (fut_suffix (view fwd s) c (wf_dwf fwd s Hw)) as [pre Ep].
  assert (Hin : In p (dl (view fwd s))) by (rewrite Ep; apply in_or_app; right; exact Hp).
  rewrite view_dl in Hin. unfold to_list. destruct fwd; [|apply in_rev in Hin]; apply in_map; exact Hin.
Qed.

Section RecTheory.
  Variable subs : elt -> list gid.
  Variable fwd : bool.

  Definition gwf (gs : forest) : Prop := forall g, wf (gs g).
  Definition fvalid (gs : forest) (f : frame) : Prop := cv fwd (gs (fst (fst f))) (snd (fst f)).
  Definition svalid (gs : forest) (stack : list frame) : Prop := Forall (fvalid gs) stack.

  (* ---------- never stuck; every yielded node belongs to the graph of the frame now on top *)
  Lemma try_pending_ok gs pend :
    gwf gs ->
    exists r ev, try_pending fwd gs pend = Some (r, ev) /\
      match r with
      | None => True
      | Some (h, c', x, t) => In x (to_list (gs h)) /\ cv fwd (gs h) c' /\ anch (view fwd (gs h)) c' = true
      end.
  Proof.
    intros Hw. induction pend as [|h t IH]; cbn [try_pending].
    - exists None, []. split; [reflexivity|exact I].
    - destruct (step_cases fwd (gs h) Fresh (Hw h) I) as [[_ Es]|[b [x [Es [_ [Hx [Hc Ha]]]]]]]; rewrite Es.
      + destruct IH as [r [ev [E H]]]. rewrite E. eexists. eexists. split; [reflexivity|exact H].
      + eexists. eexists. split; [reflexivity|]. simpl. tauto.
  Qed.

  Lemma rnext_stack_ok gs stack :
    gwf gs -> svalid gs stack ->
    exists st' y ev, rnext_stack subs fwd gs stack = Some (st', y, ev) /\ svalid gs st' /\
      match y with
      | Some x => exists g c p rest, st' = (g, c, p) :: rest /\ In x (to_list (gs g))
      | None => st' = []
      end.
  Proof.
    intros Hw. induction stack as [|[[g c] pend] rest IH]; intros Hv; cbn [rnext_stack].
    - exists [], None, []. repeat split. constructor.
    - inversion Hv as [|? ? Hf Hr]; subst.
      destruct (try_pending_ok gs pend Hw) as [r [ev [E H]]]. rewrite E.
      destruct r as [[[[h c'] x] t]|].
      + destruct H as [Hx [Hc _]]. eexists. eexists. eexists. split; [reflexivity|]. split.
        * constructor; [exact Hc|]. constructor; [exact Hf|exact Hr].
        * exists h, c', (subs x), ((g, c, t) :: rest). split; [reflexivity|exact Hx].
      + unfold fvalid in Hf. simpl in Hf.
        destruct (step_cases fwd (gs g) c (Hw g) Hf) as [[_ Es]|[b [x [Es [_ [Hx [Hc _]]]]]]]; rewrite Es.
        * destruct (IH Hr) as [st' [y [ev' [E' [Hv' Hy]]]]]. rewrite E'.
          eexists. eexists. eexists. split; [reflexivity|]. split; assumption.
        * eexists. eexists. eexists. split; [reflexivity|]. split.
          -- constructor; [exact Hc|exact Hr].
          -- exists g, (Parked b), (subs x), rest. split; [reflexivity|exact Hx].
  Qed.

  (* an edit of one graph keeps every frame valid *)
  Lemma svalid_edit gs g e stack :
    gwf gs -> svalid gs stack -> svalid (upd gs g (fst (apply_edit e (gs g)))) stack.
  Proof.
    intros Hw Hv. induction Hv as [|[[h c] p] rest Hf Hr IH]; constructor; [|exact IH].
    unfold fvalid in *. simpl in *. destruct (Nat.eq_dec h g) as [E|E].
    - subst h. rewrite upd_same.
      apply (prims_fut_filter (fun _ => false) fwd (gs g) _ c (Hw g)); [|exact Hf].
      apply apply_edit_prims; [exact (Hw g)|reflexivity].
    - rewrite upd_other by exact E. exact Hf.
  Qed.

  Lemma gwf_edit gs g e : gwf gs -> gwf (upd gs g (fst (apply_edit e (gs g)))).
  Proof.
    intros Hw h. destruct (Nat.eq_dec h g) as [E|E].
    - subst h. rewrite upd_same. apply apply_edit_wf. exact (Hw g).
    - rewrite upd_other by exact E. exact (Hw h).
  Qed.

  (* ---------- the pre-order traversal still to come *)
  Fixpoint trav (gs : forest) (n : nat) (g : gid) (c : cursor) : list elt :=
    match n with
    | 0 => []
    | S k => flat_map (fun x => x :: flat_map (fun h => trav gs k h Fresh) (subs x)) (futE fwd (gs g) c)
    end.

  Variable rk : gid -> nat.      (* nesting depth bound: the forest is acyclic *)
  Definition acyc (gs : forest) : Prop :=
    forall g x h, In x (to_list (gs g)) -> In h (subs x) -> rk h < rk g.

  Definition travg (gs : forest) (g : gid) (c : cursor) : list elt := trav gs (S (rk g)) g c.
  Definition pendtrav (gs : forest) (pend : list gid) : list elt := flat_map (fun h => travg gs h Fresh) pend.
  Fixpoint rfut (gs : forest) (stack : list frame) : list elt :=
    match stack with
    | [] => []
    | (g, c, pend) :: rest => pendtrav gs pend ++ travg gs g c ++ rfut gs rest
    end.

  Lemma flat_map_ext_in {A B} (f g : A -> list B) l :
    (forall a, In a l -> f a = g a) -> flat_map f l = flat_map g l.
  Proof.
    induction l as [|a t IH]; simpl; intros H; [reflexivity|].
    rewrite (H a (or_introl eq_refl)), IH; [reflexivity|]. intros b Hb. apply H. right. exact Hb.
  Qed.

  Lemma trav_fuel gs : gwf gs -> acyc gs ->
    forall n m g c, rk g < n -> rk g < m -> trav gs n g c = trav gs m g c.
  Proof.
    intros Hw Ha. induction n as [|n IH]; intros m g c Hn Hm; [lia|].
    destruct m as [|m]; [lia|]. simpl. apply flat_map_ext_in. intros x Hx. f_equal.
    apply flat_map_ext_in. intros h Hh.
    pose proof (Ha g x h (futE_subset fwd _ c x (Hw g) Hx) Hh) as Hr. apply IH; lia.
  Qed.

  Lemma travg_unfold gs g c : gwf gs -> acyc gs ->
    travg gs g c = flat_map (fun x => x :: pendtrav gs (subs x)) (futE fwd (gs g) c).
  Proof.
    intros Hw Ha. unfold travg, pendtrav. simpl. apply flat_map_ext_in. intros x Hx. f_equal.
    apply flat_map_ext_in. intros h Hh.
    pose proof (Ha g x h (futE_subset fwd _ c x (Hw g) Hx) Hh) as Hr.
    apply (trav_fuel gs Hw Ha); lia.
  Qed.

  Lemma try_pending_fut gs pend r ev :
    gwf gs -> acyc gs -> try_pending fwd gs pend = Some (r, ev) ->
    pendtrav gs pend =
      match r with
      | None => []
      | Some (h, c', x, t) => x :: (pendtrav gs (subs x) ++ travg gs h c') ++ pendtrav gs t
      end.
  Proof.
    intros Hw Ha. revert r ev. induction pend as [|h t IH]; intros r ev E; cbn [try_pending] in E.
    - inversion E; subst. reflexivity.
    - unfold pendtrav. simpl. fold (pendtrav gs t). rewrite (travg_unfold gs h Fresh Hw Ha).
      destruct (step_cases fwd (gs h) Fresh (Hw h) I) as [[Ef Es]|[b [x [Es [Ef _]]]]]; rewrite Es in E.
      + rewrite Ef. simpl. destruct (try_pending fwd gs t) as [[r' ev']|] eqn:Et; [|discriminate].
        inversion E; subst. apply (IH _ _ eq_refl).
      + inversion E; subst. rewrite Ef. simpl. rewrite (travg_unfold gs h (Parked b) Hw Ha).
        unfold pendtrav. rewrite <- ?app_assoc. reflexivity.
  Qed.

  (* THE RECURSIVE STEP LAW: next() yields the head of the pre-order future and leaves its tail *)
  Lemma rnext_stack_fut gs : gwf gs -> acyc gs -> forall stack st' y ev,
    svalid gs stack -> rnext_stack subs fwd gs stack = Some (st', y, ev) ->
    rfut gs stack = match y with Some x => x :: rfut gs st' | None => [] end.
  Proof.
    intros Hw Ha. induction stack as [|[[g c] pend] rest IH]; intros st' y ev Hv E; cbn [rnext_stack] in E.
    - inversion E; subst. reflexivity.
    - inversion Hv as [|? ? Hf Hr]; subst. unfold fvalid in Hf. simpl in Hf.
      destruct (try_pending fwd gs pend) as [[r ev0]|] eqn:Et; [|discriminate].
      pose proof (try_pending_fut gs pend r ev0 Hw Ha Et) as Ep. simpl rfut. rewrite Ep.
      destruct r as [[[[h c'] x] t]|].
      + inversion E; subst. simpl. unfold pendtrav. rewrite <- ?app_assoc. reflexivity.
      + simpl. rewrite (travg_unfold gs g c Hw Ha).
        destruct (step_cases fwd (gs g) c (Hw g) Hf) as [[Ef Es]|[b [x [Es [Ef _]]]]]; rewrite Es in E.
        * rewrite Ef. simpl. destruct (rnext_stack subs fwd gs rest) as [[[st1 y1] ev1]|] eqn:Er; [|discriminate].
          inversion E; subst. apply (IH st' y ev1 Hr eq_refl).
        * inversion E; subst. rewrite Ef. simpl. rewrite (travg_unfold gs g (Parked b) Hw Ha).
          unfold pendtrav. rewrite <- ?app_assoc. reflexivity.
  Qed.

  (* ---------- termination once edits stop *)
  Fixpoint riter (gs : forest) (n : nat) (stack : list frame) : option (list frame * list elt) :=
    match n with
    | 0 => Some (stack, [])
    | S k =>
        match rnext_stack subs fwd gs stack with
        | None => None
        | Some (st', None, _) => Some (st', [])
        | Some (st', Some x, _) =>
            match riter gs k st' with None => None | Some (st'', ys) => Some (st'', x :: ys) end
        end
    end.

  Lemma riter_terminates gs : gwf gs -> acyc gs -> forall n stack,
    svalid gs stack -> length (rfut gs stack) < n -> riter gs n stack = Some ([], rfut gs stack).
  Proof.
    intros Hw Ha. induction n as [|n IH]; intros stack Hv Hn; [lia|]. cbn [riter].
    destruct (rnext_stack_ok gs stack Hw Hv) as [st' [y [ev [E [Hv' Hy]]]]]. rewrite E.
    pose proof (rnext_stack_fut gs Hw Ha stack st' y ev Hv E) as Ef.
    destruct y as [x|].
    - rewrite Ef in Hn. simpl in Hn. rewrite IH; [rewrite Ef; reflexivity|exact Hv'|lia].
    - subst st'. rewrite Ef. reflexivity.
  Qed.
End RecTheory.

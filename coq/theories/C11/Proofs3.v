(* C11/Proofs3.v — cursor laws on the whole structure, schedules, termination, read-only API. *)
From Coq Require Import List Arith ZArith Bool Lia Permutation.
From IRV Require Import Base.Exn C11.Model C11.Proofs C11.Proofs2.
Import ListNotations.

Definition futE (fwd : bool) (s : st) (c : cursor) : list elt := map snd (fut (view fwd s) c).
Definition cv (fwd : bool) (s : st) (c : cursor) : Prop := cvalid (view fwd s) c.
Definition dir (fwd : bool) (l : list elt) : list elt := if fwd then l else rev l.

Lemma futE_fresh fwd s : futE fwd s Fresh = dir fwd (to_list s).
Proof. destruct fwd; unfold futE, to_list; simpl; [reflexivity|apply map_rev]. Qed.

Lemma wf_dwf fwd s : wf s -> dwf (view fwd s).
Proof. intros [W1 [W2 _]]. destruct fwd; assumption. Qed.

(* ---------- suffix arithmetic *)
Lemma suffix_of_suffix {A} (p f l1 l2 : list A) :
  p ++ f = l1 ++ l2 -> length l2 <= length f -> exists m, f = m ++ l2.
Proof.
  revert l1. induction p as [|a p IH]; intros l1 E Hl; simpl in *.
  - exists l1. exact E.
  - destruct l1 as [|b l1]; simpl in *.
    + exfalso. apply (f_equal (@length A)) in E. simpl in E. rewrite app_length in E. lia.
    + inversion E; subst. apply (IH l1); assumption.
Qed.

Lemma ins_cond_le l2 f a : ins_cond l2 f a = true -> length l2 <= length f.
Proof.
  unfold ins_cond. intros H. apply orb_prop in H. destruct H as [H|H].
  - apply Nat.ltb_lt in H. lia.
  - apply andb_prop in H. destruct H as [H _]. apply Nat.eqb_eq in H. lia.
Qed.

Lemma fut_ins_shape l1 l2 t bx c :
  dwf (mkD (l1 ++ l2) t) -> ~ In (fst bx) (ids (l1 ++ l2) ++ tids t) -> cvalid (mkD (l1 ++ l2) t) c ->
  fut (mkD (l1 ++ bx :: l2) t) c = fut (mkD (l1 ++ l2) t) c \/
  exists m, fut (mkD (l1 ++ l2) t) c = m ++ l2 /\ fut (mkD (l1 ++ bx :: l2) t) c = m ++ bx :: l2.
Proof.
  intros Hw Hf Hc. rewrite (fut_ins l1 l2 t bx c Hw Hf Hc). cbv zeta.
  destruct (ins_cond l2 (fut (mkD (l1 ++ l2) t) c) (anch (mkD (l1 ++ l2) t) c)) eqn:E; [right|left; reflexivity].
  destruct (fut_suffix (mkD (l1 ++ l2) t) c Hw) as [p Ep]. simpl in Ep.
  destruct (suffix_of_suffix p _ l1 l2 (eq_sym Ep) (ins_cond_le _ _ _ E)) as [m Em].
  exists m. split; [exact Em|]. rewrite Em. rewrite firstn_sub_app. reflexivity.
Qed.

Lemma nodup_ids_fun (l : boxes) b x y : NoDup (ids l) -> In (b, x) l -> In (b, y) l -> x = y.
Proof.
  intros Hnd H1 H2. pose proof (val_of_In l b x Hnd H1) as V1. pose proof (val_of_In l b y Hnd H2) as V2. congruence.
Qed.

Lemma filter_rm_box U b x (f : boxes) :
  (forall p, In p f -> fst p = b -> snd p = x) -> U x = false ->
  filter U (map snd (rm_box b f)) = filter U (map snd f).
Proof.
  intros Hf Hu. induction f as [|p tl IH]; [reflexivity|]. rewrite rm_box_cons. simpl.
  destruct (fst p =? b) eqn:E.
  - apply Nat.eqb_eq in E. rewrite (Hf p (or_introl eq_refl) E), Hu. apply IH.
    intros q Hq. apply Hf. right. exact Hq.
  - simpl. rewrite IH; [reflexivity|]. intros q Hq. apply Hf. right. exact Hq.
Qed.

Section Watched.
  Variable U : elt -> bool.

  Lemma prim_cv fwd s s' c : wf s -> prim U s s' -> cv fwd s c -> cv fwd s' c.
  Proof.
    intros Hw H Hc. destruct H as [s0 b x Hi _|s0 r x Hr Hx _]; unfold cv in *.
    - rewrite view_erase. apply cvalid_erase. exact Hc.
    - pose proof (dwf_live_nodup _ (wf_dwf true s0 Hw)) as Hnd. simpl in Hnd.
      destruct (ins_after_ref_split (live s0) r (nid s0, x) Hr Hnd) as [l1 [l2 [E [Ei _]]]].
      destruct (view_ins r x s0 l1 l2 E Ei) as [V1 [V2 [V3 V4]]].
      destruct fwd.
      + rewrite V1. rewrite V3 in Hc. apply cvalid_ins. exact Hc.
      + rewrite V2. rewrite V4 in Hc. apply cvalid_ins. exact Hc.
  Qed.

  (* an edit on elements outside U does not change what a cursor will yield, as far as U is concerned *)
  Lemma prim_fut_filter fwd s s' c :
    wf s -> prim U s s' -> cv fwd s c -> filter U (futE fwd s' c) = filter U (futE fwd s c).
  Proof.
    intros Hw H Hc. pose proof (wf_dwf fwd _ Hw) as Hd.
    destruct H as [s0 b x Hi Hu|s0 r x Hr Hx Hu]; unfold futE, cv in *.
    - rewrite view_erase. rewrite fut_erase; [|exact Hd|apply in_ids_view; eapply in_live_ids; exact Hi].
      apply (filter_rm_box U b x); [|exact Hu].
      intros p Hp Ep. destruct (fut_suffix (view fwd s0) c Hd) as [pre Epre].
      assert (Hin : In p (dl (view fwd s0))) by (rewrite Epre; apply in_or_app; right; exact Hp).
      assert (Hin' : In (b, x) (dl (view fwd s0))).
      { rewrite view_dl. destruct fwd; [exact Hi|]. apply -> in_rev. exact Hi. }
      destruct p as [pb px]. simpl in *. subst pb.
      exact (nodup_ids_fun _ _ _ _ (dwf_live_nodup _ Hd) Hin Hin').
    - pose proof (dwf_live_nodup _ (wf_dwf true s0 Hw)) as Hnd. simpl in Hnd.
      destruct (ins_after_ref_split (live s0) r (nid s0, x) Hr Hnd) as [l1 [l2 [E [Ei _]]]].
      destruct (view_ins r x s0 l1 l2 E Ei) as [V1 [V2 [V3 V4]]].
      destruct Hw as [_ [_ [_ [_ W5]]]]. pose proof (fresh_nid s0 W5) as Hf.
      destruct fwd.
      + rewrite V1. rewrite V3 in Hc, Hd. rewrite V3 at 2.
        destruct (fut_ins_shape l1 l2 _ (nid s0, x) c Hd) as [Es|[m [E1 E2]]]; [| exact Hc | |].
        * cbn [fst]. rewrite <- E, view_tids. exact Hf.
        * rewrite Es. reflexivity.
        * rewrite E1, E2. rewrite !map_app, !filter_app. simpl. rewrite Hu. reflexivity.
      + rewrite V2. rewrite V4 in Hc, Hd. rewrite V4 at 2.
        destruct (fut_ins_shape (rev l2) (rev l1) _ (nid s0, x) c Hd) as [Es|[m [E1 E2]]]; [| exact Hc | |].
        * cbn [fst]. rewrite <- rev_app_distr, <- E, view_tids. intros H. apply Hf.
          apply in_app_or in H. apply in_or_app. destruct H as [H|H]; [left|right; exact H].
          rewrite ids_rev in H. apply in_rev in H. exact H.
        * rewrite Es. reflexivity.
        * rewrite E1, E2. rewrite !map_app, !filter_app. simpl. rewrite Hu. reflexivity.
  Qed.

  Lemma prims_fut_filter fwd s s' c :
    wf s -> prims U s s' -> cv fwd s c ->
    filter U (futE fwd s' c) = filter U (futE fwd s c) /\ cv fwd s' c.
  Proof.
    intros Hw H. induction H as [s0|s1 s2 s3 H1 H2 IH]; intros Hc; [split; [reflexivity|exact Hc]|].
    destruct (IH (prim_wf U _ _ Hw H1) (prim_cv fwd _ _ c Hw H1 Hc)) as [E C]. split; [|exact C].
    rewrite E. apply prim_fut_filter; assumption.
  Qed.
End Watched.

(* ---------- one next() *)
Lemma step_law fwd s c :
  wf s -> cv fwd s c ->
  step fwd s c = Some (next_of (fut (view fwd s) c)).
Proof. intros Hw Hc. apply cstep_fut; [apply wf_dwf; exact Hw|exact Hc]. Qed.

Lemma step_cases fwd s c :
  wf s -> cv fwd s c ->
  (futE fwd s c = [] /\ step fwd s c = Some (Done, None)) \/
  (exists b x, step fwd s c = Some (Parked b, Some x) /\ futE fwd s c = x :: futE fwd s (Parked b) /\
               In x (to_list s) /\ cv fwd s (Parked b) /\ anch (view fwd s) (Parked b) = true).
Proof.
  intros Hw Hc. rewrite (step_law fwd s c Hw Hc). unfold futE.
  destruct (fut (view fwd s) c) as [|p tl] eqn:E; [left; split; reflexivity|right].
  destruct (fut_parked_head (view fwd s) c p tl (wf_dwf fwd s Hw) E) as [Et Hl].
  exists (fst p), (snd p). split; [reflexivity|]. rewrite Et. split; [reflexivity|]. split; [|split].
  - destruct (fut_suffix (view fwd s) c (wf_dwf fwd s Hw)) as [pre Ep]. rewrite E in Ep.
    assert (Hin : In p (dl (view fwd s))) by (rewrite Ep; apply in_or_app; right; left; reflexivity).
    unfold to_list. rewrite view_dl in Hin. destruct fwd; [|apply in_rev in Hin]; apply in_map; exact Hin.
  - unfold cv. simpl. left. exact Hl.
  - simpl. apply livb_In. exact Hl.
Qed.

(* ---------- schedules of one cursor *)
Fixpoint edits_of (evs : list sev) : list edit :=
  match evs with [] => [] | SStep :: r => edits_of r | SEdit e :: r => e :: edits_of r end.
Definition untouched (U : elt -> bool) (evs : list sev) : Prop :=
  forall e x, In e (edits_of evs) -> In x (touched e) -> U x = false.

Lemma sched_law U fwd evs : forall s c s' c' ys,
  wf s -> cv fwd s c -> untouched U evs -> srun fwd evs s c = Some (s', c', ys) ->
  filter U ys ++ filter U (futE fwd s' c') = filter U (futE fwd s c) /\ wf s' /\ cv fwd s' c'.
Proof.
  induction evs as [|ev rest IH]; intros s c s' c' ys Hw Hc Hu Hr; simpl in Hr.
  - inversion Hr; subst. simpl. split; [reflexivity|split; assumption].
  - destruct ev as [|e].
    + assert (Hu' : untouched U rest) by (intros e x He Hx; apply (Hu e x); assumption).
      destruct (step_cases fwd s c Hw Hc) as [[Ef Es]|[b [x [Es [Ef [Hx [Hcb _]]]]]]]; rewrite Es in Hr.
      * destruct (srun fwd rest s Done) as [[[s1 c1] ys1]|] eqn:Er; [|discriminate]. inversion Hr; subst.
        destruct (IH s Done s' c' ys Hw I Hu' Er) as [E1 [W1 C1]]. split; [|split; assumption].
        rewrite E1, Ef. reflexivity.
      * destruct (srun fwd rest s (Parked b)) as [[[s1 c1] ys1]|] eqn:Er; [|discriminate]. inversion Hr; subst.
        destruct (IH s (Parked b) s' c' ys1 Hw Hcb Hu' Er) as [E1 [W1 C1]]. split; [|split; assumption].
        rewrite Ef. simpl. destruct (U x); simpl; rewrite E1; reflexivity.
    + assert (Hu' : untouched U rest) by (intros e0 x He Hx; apply (Hu e0 x); [right; exact He|exact Hx]).
      assert (Hp : prims U s (fst (apply_edit e s))).
      { apply apply_edit_prims; [exact Hw|]. intros x Hx. apply (Hu e x); [left; reflexivity|exact Hx]. }
      destruct (prims_fut_filter U fwd _ _ c Hw Hp Hc) as [E C].
      destruct (IH _ c s' c' ys (prims_wf U _ _ Hw Hp) C Hu' Hr) as [E1 [W1 C1]]. split; [|split; assumption].
      rewrite E1. exact E.
Qed.

(* the model never gets stuck: no next() raises, whatever the schedule *)
Lemma srun_total fwd evs : forall s c, wf s -> cv fwd s c -> srun fwd evs s c <> None.
Proof.
  induction evs as [|ev rest IH]; intros s c Hw Hc; simpl; [discriminate|].
  destruct ev as [|e].
  - destruct (step_cases fwd s c Hw Hc) as [[_ Es]|[b [x [Es [_ [_ [Hcb _]]]]]]]; rewrite Es.
    + pose proof (IH s Done Hw I) as H. destruct (srun fwd rest s Done) as [[[? ?] ?]|]; [discriminate|congruence].
    + pose proof (IH s (Parked b) Hw Hcb) as H.
      destruct (srun fwd rest s (Parked b)) as [[[? ?] ?]|]; [discriminate|congruence].
  - apply IH; [apply apply_edit_wf; exact Hw|].
    apply (prims_fut_filter (fun _ => false) fwd s _ c Hw); [|exact Hc].
    apply apply_edit_prims; [exact Hw|reflexivity].
Qed.

(* ---------- termination once edits stop *)
Lemma srun_done fwd n s : srun fwd (repeat SStep n) s Done = Some (s, Done, []).
Proof. induction n as [|n IH]; simpl; [reflexivity|]. unfold step. simpl. rewrite IH. reflexivity. Qed.

Lemma srun_steps fwd n : forall s c,
  wf s -> cv fwd s c -> length (futE fwd s c) < n ->
  srun fwd (repeat SStep n) s c = Some (s, Done, futE fwd s c).
Proof.
  induction n as [|n IH]; intros s c Hw Hc Hn; [lia|]. simpl.
  destruct (step_cases fwd s c Hw Hc) as [[Ef Es]|[b [x [Es [Ef [_ [Hcb _]]]]]]]; rewrite Es.
  - rewrite srun_done, Ef. reflexivity.
  - rewrite IH; [rewrite Ef; reflexivity|exact Hw|exact Hcb|]. rewrite Ef in Hn. simpl in Hn. lia.
Qed.

Lemma futE_length fwd s c : wf s -> length (futE fwd s c) <= length (live s).
Proof.
  intros Hw. destruct (fut_suffix (view fwd s) c (wf_dwf fwd s Hw)) as [p Ep].
  unfold futE. rewrite map_length. apply (f_equal (@length _)) in Ep. rewrite app_length, view_dl in Ep.
  destruct fwd; [|rewrite rev_length in Ep]; lia.
Qed.

(* ---------- read-only API *)
Lemma drain_fut ds fuel : forall c,
  dwf ds -> cvalid ds c -> length (fut ds c) < fuel -> drain ds fuel c = Some (map snd (fut ds c)).
Proof.
  induction fuel as [|f IH]; intros c Hw Hc Hn; [lia|]. simpl.
  rewrite (cstep_fut ds c Hw Hc). destruct (fut ds c) as [|p tl] eqn:E; simpl; [reflexivity|].
  destruct (fut_parked_head ds c p tl Hw E) as [Et Hl].
  rewrite IH; [rewrite Et; reflexivity|exact Hw|simpl; left; exact Hl|]. rewrite Et. simpl in Hn. lia.
Qed.

Lemma list_of_spec fwd s : wf s -> list_of fwd s = Some (dir fwd (to_list s)).
Proof.
  intros Hw. unfold list_of. rewrite drain_fut; [|apply wf_dwf; exact Hw|exact I|].
  - fold (futE fwd s Fresh). rewrite futE_fresh. reflexivity.
  - simpl. rewrite view_dl. destruct fwd; [|rewrite rev_length]; lia.
Qed.

Definition py_index (l : list elt) (i : Z) : res elt :=
  let n := Z.of_nat (length l) in
  if ((i >=? n) || (i <? - n))%Z then Raise IndexError
  else match (if (i <? 0)%Z then nth_error (rev l) (Z.to_nat (- i - 1)) else nth_error l (Z.to_nat i)) with
       | Some x => Ok x
       | None => Raise StopIteration
       end.

Lemma getitem_spec i s : wf s -> getitem i s = py_index (to_list s) i.
Proof.
  intros Hw. unfold getitem, py_index, nth_next. destruct Hw as [W1 [W2 [W3 [W4 W5]]]].
  assert (Hw : wf s) by (unfold wf; tauto).
  rewrite W4. unfold to_list at 1 2. rewrite map_length.
  destruct ((i >=? Z.of_nat (length (live s))) || (i <? - Z.of_nat (length (live s))))%Z; [reflexivity|].
  destruct (i <? 0)%Z; rewrite list_of_spec by exact Hw; reflexivity.
Qed.

Lemma py_index_in_range l i :
  (- Z.of_nat (length l) <= i < Z.of_nat (length l))%Z -> exists x, py_index l i = Ok x /\ In x l.
Proof.
  intros Hr. unfold py_index.
  assert (E : ((i >=? Z.of_nat (length l)) || (i <? - Z.of_nat (length l)))%Z = false).
  { apply orb_false_intro; [rewrite Z.geb_leb; apply Z.leb_gt|apply Z.ltb_ge]; lia. }
  rewrite E. destruct (i <? 0)%Z eqn:En.
  - apply Z.ltb_lt in En. destruct (nth_error (rev l) (Z.to_nat (- i - 1))) as [x|] eqn:Ex.
    + exists x. split; [reflexivity|]. apply nth_error_In in Ex. apply in_rev. exact Ex.
    + apply nth_error_None in Ex. rewrite rev_length in Ex. lia.
  - apply Z.ltb_ge in En. destruct (nth_error l (Z.to_nat i)) as [x|] eqn:Ex.
    + exists x. split; [reflexivity|]. apply nth_error_In in Ex. exact Ex.
    + apply nth_error_None in Ex. lia.
Qed.

Lemma mem_spec x s : wf s -> mem x s = Ok (existsb (Nat.eqb x) (to_list s)).
Proof. intros Hw. unfold mem. rewrite list_of_spec by exact Hw. reflexivity. Qed.

Lemma existsb_eqb_In x l : existsb (Nat.eqb x) l = true <-> In x l.
Proof.
  rewrite existsb_exists. split.
  - intros [y [Hy E]]. apply Nat.eqb_eq in E. subst. exact Hy.
  - intros H. exists x. split; [exact H|apply Nat.eqb_refl].
Qed.

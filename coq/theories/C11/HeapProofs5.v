(* C11/HeapProofs5.v — translated _insert_one_after, _insert_many_after, append, extend, insert_after,
   insert_before refine the model; hence every edit. *)
From Coq Require Import List Arith ZArith Bool Lia.
From IRV Require Import Base.Exn C11.Model C11.Proofs C11.Proofs2 C11.Proofs3 C11.Proofs4 C11.Proofs5
  C11.Heap Gen.C11Gen C11.HeapRun C11.HeapProofs C11.HeapProofs2 C11.HeapProofs3 C11.HeapProofs4.
Import ListNotations.

Lemma val_is_eqb o v : val_is o v = option_eqb Nat.eqb o (Some v).
Proof. destruct o; reflexivity. Qed.

Lemma ref_live_fresh s r : wf s -> ref_live s r -> rid r <> S (nid s).
Proof.
  intros [_ [_ [_ [_ W5]]]] Hr. destruct r as [|b]; simpl; [discriminate|].
  intros E. inversion E; subst. pose proof (W5 (nid s) (or_introl Hr)). lia.
Qed.

(* the shape of the translated _insert_one_after: guards, the optional remove, then the insertion tail.
   (If the source changes, the regenerated definition no longer matches and this lemma — hence the theorem — breaks.) *)
Lemma py_ins_shape bx v : py_insert_one_after bx v =
  (if false then raise TypeError else
   t1 <- get_val bx ;; if val_is t1 v then ret bx else
   t2 <- get_own bx ;; if negb (t2 =? SELF) then raise ValueError else
   t3 <- dict_mem v ;; _ <- (if t3 then (t4 <- py_remove v ;; ret tt) else ret tt) ;; ins_tail bx v).
Proof. unfold py_insert_one_after, ins_tail. reflexivity. Qed.

Theorem py_insert_one_refines h s r v :
  R h s -> ref_live s r ->
  fst (py_insert_one_after (rid r) v h) = Ok (rid (snd (insert_one_after r v s))) /\
  R (snd (py_insert_one_after (rid r) v h)) (fst (insert_one_after r v s)) /\
  ref_live (fst (insert_one_after r v s)) (snd (insert_one_after r v s)).
Proof.
  intros HR Hr. pose proof HR as [Hw Hlive Htomb Hlen Hnew Hdict Hkeys].
  assert (Hrl : rlive (live s) r) by (destruct r; exact Hr).
  destruct (wf_nodups s Hw) as [Hnd Hnx].
  pose proof (Hlive r Hrl) as Hbr.
  destruct (insert_one_prims (fun _ => false) r v s Hw Hr eq_refl) as [_ Hrl'].
  split; [|split; [|exact Hrl']]; revert Hrl'; rewrite py_ins_shape; unfold insert_one_after; intros _.
  all: rewrite (bind_ok (get_val (rid r)) _ h (val_ref (live s) r) h) by (unfold get_val; rewrite Hbr; reflexivity).
  all: rewrite val_is_eqb.
  all: destruct (option_eqb Nat.eqb (val_ref (live s) r) (Some v)) eqn:Eo; [first [reflexivity|exact HR]|].
  all: rewrite (bind_ok (get_own (rid r)) _ h SELF h) by (unfold get_own; rewrite Hbr; reflexivity).
  all: rewrite Nat.eqb_refl; cbn [negb]; cbv zeta.
  all: destruct (find_box (live s) v) as [bx|] eqn:Ef.
  - (* present: removed first *)
    pose proof (find_box_Some _ _ _ Ef) as Hi.
    rewrite (bind_ok (dict_mem v) _ h true h) by (unfold dict_mem; rewrite Hdict, Ef; reflexivity).
    destruct (py_remove_refines h s v HR) as [Er HR1]. simpl in Er, HR1. rewrite Ef in Er, HR1. simpl in Er, HR1.
    destruct (py_remove v h) as [r1 h1] eqn:Ep. simpl in Er, HR1. subst r1.
    rewrite (bind_ok _ _ h tt h1) by (rewrite (bind_ok (py_remove v) _ h tt h1 Ep); reflexivity).
    rewrite ins_tail_eval. cbn [fst snd]. destruct HR1 as [_ _ _ _ Hn1 _ _]. rewrite Hn1. reflexivity.
  - pose proof (proj1 (find_box_None _ _) Ef) as Hv.
    rewrite (bind_ok (dict_mem v) _ h false h) by (unfold dict_mem; rewrite Hdict, Ef; reflexivity).
    rewrite (bind_ok _ _ h tt h) by reflexivity.
    rewrite ins_tail_eval. cbn [fst snd]. rewrite Hnew. reflexivity.
  - pose proof (find_box_Some _ _ _ Ef) as Hi.
    rewrite (bind_ok (dict_mem v) _ h true h) by (unfold dict_mem; rewrite Hdict, Ef; reflexivity).
    destruct (py_remove_refines h s v HR) as [Er HR1]. simpl in Er, HR1. rewrite Ef in Er, HR1. simpl in Er, HR1.
    destruct (py_remove v h) as [r1 h1] eqn:Ep. simpl in Er, HR1. subst r1.
    rewrite (bind_ok _ _ h tt h1) by (rewrite (bind_ok (py_remove v) _ h tt h1 Ep); reflexivity).
    rewrite ins_tail_eval. cbn [fst snd].
    assert (Hne : r <> B bx).
    { intros E. subst r. simpl in Eo. rewrite (val_of_In _ _ _ Hnd Hi) in Eo. simpl in Eo. rewrite Nat.eqb_refl in Eo. discriminate. }
    apply R_ins; [exact HR1|apply ref_live_erase; assumption|].
    destruct (to_list_erase s bx v Hnd Hnx Hi) as [Hx _]. exact Hx.
  - pose proof (proj1 (find_box_None _ _) Ef) as Hv.
    rewrite (bind_ok (dict_mem v) _ h false h) by (unfold dict_mem; rewrite Hdict, Ef; reflexivity).
    rewrite (bind_ok _ _ h tt h) by reflexivity.
    rewrite ins_tail_eval. cbn [fst snd]. apply R_ins; assumption.
Qed.

Lemma pair_eta {A B} (p : A * B) : p = (fst p, snd p).
Proof. destruct p; reflexivity. Qed.

Lemma for_many_refines body vs :
  (forall ip x, body ip x = (t1 <- py_insert_one_after ip x ;; ret t1)) ->
  forall r h s, R h s -> ref_live s r ->
  exists r', fst (for_m vs body (rid r) h) = Ok (rid r') /\ R (snd (for_m vs body (rid r) h)) (insert_many_after r vs s).
Proof.
  intros Hb. induction vs as [|x t IH]; intros r h s HR Hr; simpl.
  - exists r. split; [reflexivity|exact HR].
  - destruct (py_insert_one_refines h s r x HR Hr) as [E1 [HR1 Hr1]].
    destruct (insert_one_after r x s) as [s1 r1] eqn:Em. simpl in E1, HR1, Hr1.
    rewrite (bind_ok (body (rid r) x) _ h (rid r1) (snd (py_insert_one_after (rid r) x h))).
    + apply IH; assumption.
    + rewrite Hb. rewrite (bind_ok (py_insert_one_after (rid r) x) _ h (rid r1) (snd (py_insert_one_after (rid r) x h))); [reflexivity|].
      rewrite (pair_eta (py_insert_one_after (rid r) x h)), E1. reflexivity.
Qed.

Lemma py_insert_many_refines vs r h s :
  R h s -> ref_live s r ->
  fst (py_insert_many_after (rid r) vs h) = Ok tt /\ R (snd (py_insert_many_after (rid r) vs h)) (insert_many_after r vs s).
Proof.
  intros HR Hr. unfold py_insert_many_after. cbv zeta.
  destruct (for_many_refines _ vs (fun _ _ => eq_refl) r h s HR Hr) as [r' [E HR']].
  match goal with |- context [bind (for_m vs ?b (rid r)) ?k h] =>
    rewrite (bind_ok (for_m vs b (rid r)) k h (rid r') (snd (for_m vs b (rid r) h)))
      by (rewrite (pair_eta (for_m vs b (rid r) h)), E; reflexivity) end.
  split; [reflexivity|exact HR'].
Qed.

Lemma py_append_refines x h s :
  R h s -> fst (py_append x h) = Ok tt /\ R (snd (py_append x h)) (append x s).
Proof.
  intros HR. pose proof HR as [Hw Hlive _ _ _ _ _]. unfold py_append, append.
  rewrite (bind_ok (get_prev ROOT) _ h (rid (last_ref (live s))) h)
    by (unfold get_prev; change ROOT with (rid Root); rewrite (Hlive Root I); reflexivity).
  destruct (py_insert_one_refines h s (last_ref (live s)) x HR (last_ref_live s)) as [E1 [HR1 _]].
  rewrite (bind_ok (py_insert_one_after (rid (last_ref (live s))) x) _ h _ _
             (eq_trans (pair_eta _) (f_equal (fun a => (a, _)) E1))).
  split; [reflexivity|exact HR1].
Qed.

Lemma py_extend_refines xs : forall h s,
  R h s -> fst (py_extend xs h) = Ok tt /\ R (snd (py_extend xs h)) (extend xs s).
Proof.
  unfold py_extend, extend.
  assert (H : forall h s, R h s ->
     fst (for_m xs (fun (_ : unit) v_value => t1 <- py_append v_value ;; ret tt) tt h) = Ok tt /\
     R (snd (for_m xs (fun (_ : unit) v_value => t1 <- py_append v_value ;; ret tt) tt h))
       (fold_left (fun s x => append x s) xs s)).
  { induction xs as [|x t IH]; intros h s HR; simpl; [split; [reflexivity|exact HR]|].
    destruct (py_append_refines x h s HR) as [E1 HR1].
    rewrite (bind_ok _ _ h tt (snd (py_append x h))).
    - apply IH. exact HR1.
    - rewrite (bind_ok (py_append x) _ h tt (snd (py_append x h))); [reflexivity|].
      rewrite (pair_eta (py_append x h)), E1. reflexivity. }
  intros h s HR. destruct (H h s HR) as [E HR'].
  match goal with |- context [bind ?m ?k h] =>
    rewrite (bind_ok m k h tt (snd (m h))) by (rewrite (pair_eta (m h)), E; reflexivity) end.
  split; [reflexivity|exact HR'].
Qed.

(* THE HEAP REFINEMENT: every translated mutator acts on the box heap as the model's edit acts on the
   sequence + tombstone state, with the same outcome *)
Theorem happly_refines e h s :
  R h s -> fst (happly e h) = snd (apply_edit e s) /\ R (snd (happly e h)) (fst (apply_edit e s)).
Proof.
  intros HR. pose proof HR as [Hw Hlive _ _ _ Hdict _]. destruct (wf_nodups s Hw) as [Hnd _].
  destruct e as [x|xs|a xs|a xs|x]; cbn [happly].
  - apply py_append_refines. exact HR.
  - apply py_extend_refines. exact HR.
  - simpl apply_edit. unfold py_insert_after. cbv zeta.
    destruct (find_box (live s) a) as [b|] eqn:Ef.
    + rewrite (bind_ok (dict_mem a) _ h true h) by (unfold dict_mem; rewrite Hdict, Ef; reflexivity).
      cbn [negb]. rewrite (bind_ok (dict_get a) _ h (rid (B b)) h) by (unfold dict_get; rewrite Hdict, Ef; reflexivity).
      apply find_box_Some in Ef.
      destruct (py_insert_many_refines xs (B b) h s HR (in_live_ids _ _ _ Ef)) as [E HR'].
      rewrite (bind_ok (py_insert_many_after (rid (B b)) xs) _ h tt _ (eq_trans (pair_eta _) (f_equal (fun a0 => (a0, _)) E))).
      split; [reflexivity|exact HR'].
    + rewrite (bind_ok (dict_mem a) _ h false h) by (unfold dict_mem; rewrite Hdict, Ef; reflexivity).
      split; [reflexivity|exact HR].
  - simpl apply_edit. unfold py_insert_before. cbv zeta.
    destruct (find_box (live s) a) as [b|] eqn:Ef.
    + rewrite (bind_ok (dict_mem a) _ h true h) by (unfold dict_mem; rewrite Hdict, Ef; reflexivity).
      cbn [negb]. rewrite (bind_ok (dict_get a) _ h (rid (B b)) h) by (unfold dict_get; rewrite Hdict, Ef; reflexivity).
      apply find_box_Some in Ef. pose proof (in_live_ids _ _ _ Ef) as Hb.
      rewrite (bind_ok (get_prev (rid (B b))) _ h (rid (pred_ref (live s) b)) h)
        by (unfold get_prev; rewrite (Hlive (B b) Hb); reflexivity).
      destruct (py_insert_many_refines xs (pred_ref (live s) b) h s HR (pred_ref_live s b Hb Hnd)) as [E HR'].
      rewrite (bind_ok (py_insert_many_after (rid (pred_ref (live s) b)) xs) _ h tt _
                 (eq_trans (pair_eta _) (f_equal (fun a0 => (a0, _)) E))).
      split; [reflexivity|exact HR'].
    + rewrite (bind_ok (dict_mem a) _ h false h) by (unfold dict_mem; rewrite Hdict, Ef; reflexivity).
      split; [reflexivity|exact HR].
  - apply py_remove_refines. exact HR.
Qed.

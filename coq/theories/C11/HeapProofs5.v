(* C11/HeapProofs5.v — translated _insert_one_after, _insert_many_after, append, extend, insert_after,
   insert_before refine the model; hence every edit. *)
From Coq Require Import List Arith ZArith Bool Lia.
From IRV Require Import Base.Exn C11.Model C11.Proofs C11.Proofs2 C11.Proofs3 C11.Proofs4 C11.Proofs5
  C11.Heap Gen.C11Gen C11.HeapRun C11.HeapProofs C11.HeapProofs2 C11.HeapProofs3 C11.HeapProofs4.
Import ListNotations.

Lemma val_is_eqb o v : val_is o v = option_eqb Nat.eqb o (Some v).
Proof. destruct o; reflexivity. Qed.

Lemma ref_live_fresh s r : wf s -> ref_live s r -> rid r <> S (nid s).
Proof.
  intros [_ [_ [_ [_ W5]]]] Hr. destruct r as [|b]; simpl; [discriminate|].
  intros E. inversion E; subst. pose proof (W5 (nid s) (or_introl Hr)). lia.
Qed.

(* the shape of the translated _insert_one_after: guards, the optional remove, then the insertion tail.
   (If the source changes, the regenerated definition no longer matches and this lemma — hence the theorem — breaks.) *)
Lemma py_ins_shape bx v : py_insert_one_after bx v =
  (if false then raise TypeError else
   t1 <- get_val bx ;; if val_is t1 v then ret bx else
   t2 <- get_own bx ;; if negb (t2 =? SELF) then raise ValueError else
   t3 <- dict_mem v ;; _ <- (if t3 then (t4 <- py_remove v ;; ret tt) else ret tt) ;; ins_tail bx v).
Proof. reflexivity. Qed.

Theorem py_insert_one_refines h s r v :
  R h s -> ref_live s r ->
  fst (py_insert_one_after (rid r) v h) = Ok (rid (snd (insert_one_after r v s))) /\
  R (snd (py_insert_one_after (rid r) v h)) (fst (insert_one_after r v s)) /\
  ref_live (fst (insert_one_after r v s)) (snd (insert_one_after r v s)).
Proof.
  intros HR Hr. pose proof HR as [Hw Hlive Htomb Hlen Hnew Hdict Hkeys].
  assert (Hrl : rlive (live s) r) by (destruct r; exact Hr).
  destruct (wf_nodups s Hw) as [Hnd Hnx].
  pose proof (Hlive r Hrl) as Hbr.
  destruct (insert_one_prims (fun _ => false) r v s Hw Hr eq_refl) as [_ Hrl'].
  split; [|split; [|exact Hrl']]; revert Hrl'; rewrite py_ins_shape; unfold insert_one_after; intros _.
  all: rewrite (bind_ok (get_val (rid r)) _ h (val_ref (live s) r) h) by (unfold get_val; rewrite Hbr; reflexivity).
  all: rewrite val_is_eqb.
  all: destruct (option_eqb Nat.eqb (val_ref (live s) r) (Some v)) eqn:Eo; [first [reflexivity|exact HR]|].
  all: rewrite (bind_ok (get_own (rid r)) _ h SELF h) by (unfold get_own; rewrite Hbr; reflexivity).
  all: rewrite Nat.eqb_refl; cbn [negb]; cbv zeta.
  all: destruct (find_box (live s) v) as [bx|] eqn:Ef.
  - (* present: removed first *)
    pose proof (find_box_Some _ _ _ Ef) as Hi.
    rewrite (bind_ok (dict_mem v) _ h true h) by (unfold dict_mem; rewrite Hdict, Ef; reflexivity).
    destruct (py_remove_refines h s v HR) as [Er HR1]. simpl in Er, HR1. rewrite Ef in Er, HR1. simpl in Er, HR1.
    destruct (py_remove v h) as [r1 h1] eqn:Ep. simpl in Er, HR1. subst r1.
    rewrite (bind_ok _ _ h tt h1) by (rewrite (bind_ok (py_remove v) _ h tt h1 Ep); reflexivity).
    rewrite ins_tail_eval. cbn [fst snd]. destruct HR1 as [_ _ _ _ Hn1 _ _]. rewrite Hn1. reflexivity.
  - pose proof (proj1 (find_box_None _ _) Ef) as Hv.
    rewrite (bind_ok (dict_mem v) _ h false h) by (unfold dict_mem; rewrite Hdict, Ef; reflexivity).
    rewrite (bind_ok _ _ h tt h) by reflexivity.
    rewrite ins_tail_eval. cbn [fst snd]. rewrite Hnew. reflexivity.
  - pose proof (find_box_Some _ _ _ Ef) as Hi.
    rewrite (bind_ok (dict_mem v) _ h true h) by (unfold dict_mem; rewrite Hdict, Ef; reflexivity).
    destruct (py_remove_refines h s v HR) as [Er HR1]. simpl in Er, HR1. rewrite Ef in Er, HR1. simpl in Er, HR1.
    destruct (py_remove v h) as [r1 h1] eqn:Ep. simpl in Er, HR1. subst r1.
    rewrite (bind_ok _ _ h tt h1) by (rewrite (bind_ok (py_remove v) _ h tt h1 Ep); reflexivity).
    rewrite ins_tail_eval. cbn [fst snd].
    assert (Hne : r <> B bx).
    { intros E. subst r. simpl in Eo. rewrite (val_of_In _ _ _ Hnd Hi) in Eo. simpl in Eo. rewrite Nat.eqb_refl in Eo. discriminate. }
    apply R_ins; [exact HR1|apply ref_live_erase; assumption|].
    destruct (to_list_erase s bx v Hnd Hnx Hi) as [Hx _]. exact Hx.
  - pose proof (proj1 (find_box_None _ _) Ef) as Hv.
    rewrite (bind_ok (dict_mem v) _ h false h) by (unfold dict_mem; rewrite Hdict, Ef; reflexivity).
    rewrite (bind_ok _ _ h tt h) by reflexivity.
    rewrite ins_tail_eval. cbn [fst snd]. apply R_ins; assumption.
Qed.

(* C11/HeapRun.v — running schedules on the TRANSLATED code (Gen/C11Gen.v) over the box heap: the same case
   files that tie the sequence+tombstone model to the implementation are also replayed on the translation. *)
From Coq Require Import List Arith ZArith Bool Lia.
From IRV Require Import Base.Exn C11.Model C11.Heap Gen.C11Gen.
Import ListNotations.

Definition happly (e : edit) : M unit :=
  match e with
  | Append x => py_append x | Extend xs => py_extend xs
  | InsAfter a xs => py_insert_after a xs | InsBefore a xs => py_insert_before a xs
  | Remove x => py_remove x
  end.

(* next(it): the generator is resumed (advance) or started (first), then runs to its next yield / its end *)
Definition hstep (fwd : bool) (h : heap) (c : cursor) : res (cursor * option elt) :=
  let fuel := S (hnew h) in
  let fin (r : res (option (bid * elt))) : res (cursor * option elt) :=
    match r with
    | Ok (Some (b, x)) => Ok (Parked b, Some x)
    | Ok None => Ok (Done, None)
    | Raise e => Raise e
    end in
  match c with
  | Done => Ok (Done, None)
  | Fresh => fin (fst ((if fwd then b <- py_iter_first ;; py_iter_scan fuel b
                        else b <- py_rev_first ;; py_rev_scan fuel b) h))
  | Parked b => fin (fst ((if fwd then b' <- py_iter_advance b ;; py_iter_scan fuel b'
                           else b' <- py_rev_advance b ;; py_rev_scan fuel b') h))
  end.

Fixpoint hdrain (fwd : bool) (h : heap) (fuel : nat) (c : cursor) : option (list elt) :=
  match fuel with
  | 0 => None
  | S f =>
      match hstep fwd h c with
      | Raise _ => None
      | Ok (_, None) => Some []
      | Ok (c', Some x) => match hdrain fwd h f c' with Some r => Some (x :: r) | None => None end
      end
  end.
Definition hlist_of (fwd : bool) (h : heap) : option (list elt) := hdrain fwd h (S (hnew h)) Fresh.

(* __getitem__ / __contains__ are not translated: thin hand-written layer over the translated iterators *)
Definition hgetitem (i : Z) (h : heap) : res elt :=
  let n := hlen h in
  if ((i >=? n) || (i <? - n))%Z then Raise IndexError
  else match hlist_of (negb (i <? 0)%Z) h with
       | None => Raise OtherError
       | Some l => match nth_error l (Z.to_nat (if (i <? 0)%Z then - i - 1 else i)) with
                   | Some x => Ok x | None => Raise StopIteration end
       end.

Definition hmstate := (heap * list (bool * cursor))%type.
Definition hrun_ev (m : hmstate) (e : ev) : hmstate * res (option elt) :=
  let '(h, cs) := m in
  match e with
  | ENew fwd => ((h, cs ++ [(fwd, Fresh)]), Ok None)
  | EStep i =>
      match nth_error cs i with
      | None => (m, Raise OtherError)
      | Some (fwd, c) =>
          match hstep fwd h c with
          | Raise x => (m, Raise x)
          | Ok (c', y) => ((h, set_nth cs i (fwd, c')), Ok y)
          end
      end
  | EEdit ed =>
      let '(r, h') := happly ed h in
      ((h', cs), match r with Ok _ => Ok None | Raise x => Raise x end)
  | EGet i => (m, match hgetitem i h with Ok x => Ok (Some x) | Raise x => Raise x end)
  | EMem x => (m, match hlist_of true h with
                  | None => Raise OtherError
                  | Some l => Ok (Some (if existsb (Nat.eqb x) l then 1 else 0))
                  end)
  end.

Definition hobs_of (m : hmstate) (r : res (option elt)) : option obs :=
  match hlist_of true (fst m), hlist_of false (fst m) with
  | Some f, Some b => Some (r, f, b, Z.to_nat (hlen (fst m)))
  | _, _ => None
  end.

Fixpoint hagree_from (m : hmstate) (tr : list (ev * option obs)) : bool :=
  match tr with
  | [] => true
  | (e, o) :: rest =>
      let '(m', r) := hrun_ev m e in
      match o with
      | None => hagree_from m' rest
      | Some o =>
          match hobs_of m' r with
          | Some o' => obs_eqb o' o && hagree_from m' rest
          | None => false
          end
      end
  end.
Definition hinit (xs : list elt) : heap := snd (py_extend xs empty_heap).
Definition hagree (c : list elt * list (ev * option obs)) : bool :=
  hagree_from (hinit (fst c), []) (snd c).

Fixpoint hfirst_fail (m : hmstate) (t : tcase) : list nat :=
  match t with
  | T kids =>
      (fix go (ks : list (ev * obs * tcase)) (i : nat) : list nat :=
         match ks with
         | [] => []
         | (e, o, sub) :: rest =>
             let '(m', r) := hrun_ev m e in
             match hobs_of m' r with
             | Some o' =>
                 if obs_eqb o' o then
                   match hfirst_fail m' sub with
                   | [] => go rest (S i)
                   | p => i :: p
                   end
                 else [i]
             | None => [i]
             end
         end) kids 1
  end.
Definition htree_fail (init : list elt) (cursors : list bool) (t : tcase) : list nat :=
  hfirst_fail (hinit init, map (fun f => (f, Fresh)) cursors) t.

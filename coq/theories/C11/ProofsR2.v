(* C11/ProofsR2.v — RecursiveGraphIterator under edits: the schedule law for the pre-order traversal. *)
From Coq Require Import List Arith ZArith Bool Lia.
From IRV Require Import Base.Exn C11.Model C11.Proofs C11.Proofs2 C11.Proofs3 C11.ProofsR.
Import ListNotations.

(* ---------- how one primitive effect changes what a flat cursor will yield: one node in or out *)
Lemma rm_box_shape b (f : boxes) :
  NoDup (ids f) ->
  rm_box b f = f \/ exists f1 x f2, f = f1 ++ (b, x) :: f2 /\ rm_box b f = f1 ++ f2.
Proof.
  intros Hnd. destruct (in_dec Nat.eq_dec b (ids f)) as [Hi|Hi].
  - right. destruct (from_split _ _ Hi) as [f1 [x [f2 [E [N _]]]]]. exists f1, x, f2. split; [exact E|].
    rewrite E in *. destruct (NoDup_mid_notin _ _ _ _ Hnd) as [_ N2]. apply rm_box_mid; assumption.
  - left. apply rm_box_notin. exact Hi.
Qed.

Lemma NoDup_suffix {A} (p f : list A) : NoDup (p ++ f) -> NoDup f.
Proof. intros H. apply NoDup_app_inv in H. tauto. Qed.

Lemma prim_futE_shape W fwd s s' c :
  wf s -> prim W s s' -> cv fwd s c ->
  exists x, W x = false /\
    (futE fwd s' c = futE fwd s c \/
     exists m1 m2, (futE fwd s c = m1 ++ m2 /\ futE fwd s' c = m1 ++ x :: m2) \/
                   (futE fwd s c = m1 ++ x :: m2 /\ futE fwd s' c = m1 ++ m2)).
Proof.
  intros Hw H Hc. pose proof (wf_dwf fwd _ Hw) as Hd.
  destruct H as [s0 b x Hi Hu|s0 r x Hr Hx Hu]; exists x; (split; [exact Hu|]); unfold futE, cv in *.
  - rewrite view_erase. rewrite fut_erase; [|exact Hd|apply in_ids_view; eapply in_live_ids; exact Hi].
    destruct (fut_suffix (view fwd s0) c Hd) as [pre Epre].
    assert (Hndf : NoDup (ids (fut (view fwd s0) c))).
    { pose proof (dwf_live_nodup _ Hd) as Hn. rewrite Epre, ids_app in Hn. apply NoDup_suffix in Hn. exact Hn. }
    destruct (rm_box_shape b _ Hndf) as [E|[f1 [x' [f2 [E1 E2]]]]]; [left; rewrite E; reflexivity|right].
    assert (x' = x).
    { assert (Hin : In (b, x') (dl (view fwd s0))).
      { rewrite Epre, E1. apply in_or_app. right. apply in_or_app. right. left. reflexivity. }
      assert (Hin' : In (b, x) (dl (view fwd s0))).
      { rewrite view_dl. destruct fwd; [exact Hi|]. apply -> in_rev. exact Hi. }
      exact (nodup_ids_fun _ _ _ _ (dwf_live_nodup _ Hd) Hin Hin'). }
    subst x'. exists (map snd f1), (map snd f2). right. rewrite E2, E1, !map_app. simpl. split; reflexivity.
  - pose proof (dwf_live_nodup _ (wf_dwf true s0 Hw)) as Hnd. simpl in Hnd.
    destruct (ins_after_ref_split (live s0) r (nid s0, x) Hr Hnd) as [l1 [l2 [E [Ei _]]]].
    destruct (view_ins r x s0 l1 l2 E Ei) as [V1 [V2 [V3 V4]]].
    destruct Hw as [_ [_ [_ [_ W5]]]]. pose proof (fresh_nid s0 W5) as Hf.
    pose proof (view_tids true s0) as Tt. pose proof (view_tids false s0) as Tf.
    remember (dt (view true s0)) as tt. remember (dt (view false s0)) as tf.
    destruct fwd.
    + rewrite V1. rewrite V3 in Hc, Hd |- *.
      destruct (fut_ins_shape l1 l2 _ (nid s0, x) c Hd) as [Es|[m [E1 E2]]]; [| exact Hc | |].
      * cbn [fst]. rewrite <- E, Tt. exact Hf.
      * left. rewrite Es. reflexivity.
      * right. exists (map snd m), (map snd l2). left. rewrite E1, E2, !map_app. split; reflexivity.
    + rewrite V2. rewrite V4 in Hc, Hd |- *.
      destruct (fut_ins_shape (rev l2) (rev l1) _ (nid s0, x) c Hd) as [Es|[m [E1 E2]]]; [| exact Hc | |].
      * cbn [fst]. rewrite <- rev_app_distr, <- E, Tf. intros H. apply Hf.
        apply in_app_or in H. apply in_or_app. destruct H as [H|H]; [left|right; exact H].
        rewrite ids_rev in H. apply in_rev in H. exact H.
      * left. rewrite Es. reflexivity.
      * right. exists (map snd m), (map snd (rev l1)). left. rewrite E1, E2, !map_app. split; reflexivity.
Qed.

Lemma prim_to_list_in W s s' y :
  wf s -> prim W s s' -> In y (to_list s') -> In y (to_list s) \/ W y = false.
Proof.
  intros Hw H Hy. destruct H as [s0 b x Hi Hu|s0 r x Hr Hx Hu].
  - left. unfold to_list, erase_box in *. simpl in Hy. apply in_map_iff in Hy. destruct Hy as [p [E Hp]].
    unfold rm_box in Hp. apply filter_In in Hp. subst y. apply in_map. tauto.
  - pose proof (dwf_live_nodup _ (wf_dwf true s0 Hw)) as Hnd. simpl in Hnd.
    destruct (ins_after_ref_split (live s0) r (nid s0, x) Hr Hnd) as [l1 [l2 [E [Ei _]]]].
    unfold to_list, ins_box in *. simpl in Hy. rewrite Ei in Hy. rewrite E. rewrite map_app in *. simpl in Hy.
    apply in_app_or in Hy. destruct Hy as [Hy|[Hy|Hy]]; [left|right; congruence|left]; apply in_or_app; tauto.
Qed.

Lemma filter_flat_map {A B} (U : B -> bool) (f : A -> list B) l :
  filter U (flat_map f l) = flat_map (fun a => filter U (f a)) l.
Proof. induction l as [|a t IH]; simpl; [reflexivity|]. rewrite filter_app, IH. reflexivity. Qed.

Lemma filter_all_false {A} (U : A -> bool) l : (forall y, In y l -> U y = false) -> filter U l = [].
Proof.
  induction l as [|a t IH]; simpl; intros H; [reflexivity|].
  rewrite (H a (or_introl eq_refl)). apply IH. intros y Hy. apply H. right. exact Hy.
Qed.

Section RecEdits.
  Variable subs : elt -> list gid.
  Variable fwd : bool.
  Variable rk : gid -> nat.
  Variable home : elt -> gid.            (* the graph a node lives in (nodes do not change graph) *)
  Hypothesis sub_rank : forall x h, In h (subs x) -> rk h < rk (home x).
  Variable U : elt -> bool.              (* the watched nodes *)

  Definition homed (gs : forest) : Prop := forall g x, In x (to_list (gs g)) -> home x = g.
  (* no watched node lies under x, in this forest *)
  Definition clearU (gs : forest) (x : elt) : Prop :=
    forall k y, In y (flat_map (fun h => trav subs fwd gs k h Fresh) (subs x)) -> U y = false.

  Lemma homed_acyc gs : homed gs -> acyc subs rk gs.
  Proof. intros Hh g x h Hx Hs. rewrite <- (Hh g x Hx). apply sub_rank. exact Hs. Qed.

  Lemma trav_ext gs1 gs2 : (forall h, gs1 h = gs2 h) -> forall n g c, trav subs fwd gs1 n g c = trav subs fwd gs2 n g c.
  Proof.
    intros He. induction n as [|n IH]; intros g c; simpl; [reflexivity|]. rewrite He.
    apply flat_map_ext_in. intros x _. f_equal. apply flat_map_ext_in. intros h _. apply IH.
  Qed.

  (* one primitive effect in graph g on a node x that is not watched and has no watched node under it *)
  Lemma prim_trav_filter W gs gs' g :
    gwf gs -> prim W (gs g) (gs' g) -> (forall h, h <> g -> gs' h = gs h) ->
    (forall x, W x = false -> U x = false /\ clearU gs x) ->
    forall n h c, cv fwd (gs h) c ->
      filter U (trav subs fwd gs' n h c) = filter U (trav subs fwd gs n h c).
  Proof.
    intros Hw Hp Ho Hcl. induction n as [|n IH]; intros h c Hc; simpl; [reflexivity|].
    assert (Hin : forall y, filter U (y :: flat_map (fun h' => trav subs fwd gs' n h' Fresh) (subs y)) =
                            filter U (y :: flat_map (fun h' => trav subs fwd gs n h' Fresh) (subs y))).
    { intros y. simpl. rewrite !filter_flat_map.
      rewrite (flat_map_ext_in (fun a => filter U (trav subs fwd gs' n a Fresh))
                               (fun a => filter U (trav subs fwd gs n a Fresh))); [reflexivity|].
      intros a _. apply IH. exact I. }
    assert (Hsame : forall l, filter U (flat_map (fun x => x :: flat_map (fun h' => trav subs fwd gs' n h' Fresh) (subs x)) l) =
                              filter U (flat_map (fun x => x :: flat_map (fun h' => trav subs fwd gs n h' Fresh) (subs x)) l)).
    { intros l. rewrite !filter_flat_map. apply flat_map_ext_in. intros a _. apply Hin. }
    destruct (Nat.eq_dec h g) as [E|E].
    - subst h. destruct (prim_futE_shape W fwd _ _ c (Hw g) Hp Hc) as [x [Hx Hs]].
      destruct (Hcl x Hx) as [Hux Hcx].
      assert (Hz : filter U (x :: flat_map (fun h' => trav subs fwd gs n h' Fresh) (subs x)) = []).
      { simpl. rewrite Hux. apply filter_all_false. intros y Hy. exact (Hcx n y Hy). }
      destruct Hs as [Es|[m1 [m2 [[E1 E2]|[E1 E2]]]]].
      + rewrite Es. apply Hsame.
      + rewrite E1, E2, !flat_map_app, !filter_app. simpl flat_map. rewrite app_comm_cons, filter_app, Hin, Hz, !Hsame. reflexivity.
      + rewrite E1, E2, !flat_map_app, !filter_app. simpl flat_map. rewrite app_comm_cons, filter_app, Hz, !Hsame. reflexivity.
    - rewrite (Ho h E). apply Hsame.
  Qed.

  Lemma prim_homed W gs gs' g :
    gwf gs -> homed gs -> prim W (gs g) (gs' g) -> (forall h, h <> g -> gs' h = gs h) ->
    (forall x, W x = false -> home x = g) -> homed gs'.
  Proof.
    intros Hw Hh Hp Ho Hg h x Hx. destruct (Nat.eq_dec h g) as [E|E].
    - subst h. destruct (prim_to_list_in W _ _ x (Hw g) Hp Hx) as [H|H]; [exact (Hh g x H)|exact (Hg x H)].
    - rewrite (Ho h E) in Hx. exact (Hh h x Hx).
  Qed.

  (* a whole edit = a sequence of primitive effects *)
  Lemma prims_trav_filter W g s s' :
    prims W s s' -> forall gs gs',
    gs g = s -> gs' g = s' -> (forall h, h <> g -> gs' h = gs h) ->
    gwf gs -> homed gs ->
    (forall x, W x = false -> U x = false /\ home x = g /\ forall gs0, gwf gs0 -> homed gs0 -> clearU gs0 x) ->
    (forall n h c, cv fwd (gs h) c -> filter U (trav subs fwd gs' n h c) = filter U (trav subs fwd gs n h c)) /\
    homed gs'.
  Proof.
    induction 1 as [s0|s1 s2 s3 H1 H2 IH]; intros gs gs' Eg Eg' Ho Hw Hh HW.
    - assert (He : forall h, gs' h = gs h).
      { intros h. destruct (Nat.eq_dec h g) as [E|E]; [subst h; congruence|apply Ho; exact E]. }
      split.
      + intros n h c _. rewrite (trav_ext gs' gs He). reflexivity.
      + intros h x Hx. rewrite He in Hx. exact (Hh h x Hx).
    - set (gsm := upd gs g s2).
      assert (Em : gsm g = s2) by apply upd_same.
      assert (Hom : forall h, h <> g -> gsm h = gs h) by (intros h Hn; apply upd_other; exact Hn).
      assert (Hp : prim W (gs g) (gsm g)) by (rewrite Eg, Em; exact H1).
      assert (Hwm : gwf gsm).
      { intros h. destruct (Nat.eq_dec h g) as [E|E]; [subst h; rewrite Em; apply (prim_wf W s1); [rewrite <- Eg; apply Hw|exact H1]|].
        rewrite Hom by exact E. apply Hw. }
      assert (Hhm : homed gsm).
      { apply (prim_homed W gs gsm g Hw Hh Hp Hom). intros x Hx. apply (HW x Hx). }
      assert (F1 : forall n h c, cv fwd (gs h) c -> filter U (trav subs fwd gsm n h c) = filter U (trav subs fwd gs n h c)).
      { apply (prim_trav_filter W gs gsm g Hw Hp Hom). intros x Hx. destruct (HW x Hx) as [A [_ C]].
        split; [exact A|apply C; assumption]. }
      destruct (IH gsm gs' Em Eg' (fun h Hn => eq_trans (Ho h Hn) (eq_sym (Hom h Hn))) Hwm Hhm HW) as [F2 Hh'].
      split; [|exact Hh'].
      intros n h c Hc. rewrite F2; [apply F1; exact Hc|].
      destruct (Nat.eq_dec h g) as [E|E].
      + subst h. rewrite Em. rewrite Eg in Hc. apply (prim_cv W fwd s1 s2 c); [rewrite <- Eg; apply Hw|exact H1|exact Hc].
      + rewrite Hom by exact E. exact Hc.
  Qed.

  (* ---------- schedules of one recursive iterator *)
  Inductive rsev := RSStep | RSEdit (g : gid) (e : edit).

  Fixpoint rsrun (evs : list rsev) (gs : forest) (stack : list frame) : option (forest * list frame * list elt) :=
    match evs with
    | [] => Some (gs, stack, [])
    | RSStep :: rest =>
        match rnext_stack subs fwd gs stack with
        | None => None
        | Some (st', y, _) =>
            match rsrun rest gs st' with
            | None => None
            | Some (gs', st'', ys) => Some (gs', st'', match y with Some x => x :: ys | None => ys end)
            end
        end
    | RSEdit g e :: rest => rsrun rest (upd gs g (fst (apply_edit e (gs g)))) stack
    end.

  Definition edit_clear (g : gid) (e : edit) : Prop :=
    forall x, In x (touched e) ->
      U x = false /\ home x = g /\ forall gs0, gwf gs0 -> homed gs0 -> clearU gs0 x.
  Fixpoint redits_ok (evs : list rsev) : Prop :=
    match evs with
    | [] => True
    | RSStep :: r => redits_ok r
    | RSEdit g e :: r => edit_clear g e /\ redits_ok r
    end.

  Lemma rfut_filter_eq gs gs' stack :
    (forall n h c, cv fwd (gs h) c -> filter U (trav subs fwd gs' n h c) = filter U (trav subs fwd gs n h c)) ->
    svalid fwd gs stack -> filter U (rfut subs fwd rk gs' stack) = filter U (rfut subs fwd rk gs stack).
  Proof.
    intros F Hv. induction Hv as [|[[g c] p] rest Hf Hr IH]; [reflexivity|].
    simpl. rewrite !filter_app, IH. unfold fvalid in Hf. simpl in Hf. unfold travg. rewrite (F _ g c Hf).
    f_equal. unfold pendtrav. rewrite !filter_flat_map. apply flat_map_ext_in. intros h _. apply F. exact I.
  Qed.

  (* THE RECURSIVE SCHEDULE LAW *)
  Theorem rsched_law evs : forall gs stack gs' st' ys,
    gwf gs -> homed gs -> svalid fwd gs stack -> redits_ok evs ->
    rsrun evs gs stack = Some (gs', st', ys) ->
    filter U ys ++ filter U (rfut subs fwd rk gs' st') = filter U (rfut subs fwd rk gs stack) /\
    gwf gs' /\ homed gs' /\ svalid fwd gs' st'.
  Proof.
    induction evs as [|ev rest IH]; intros gs stack gs' st' ys Hw Hh Hv Hok Hr; simpl in Hr.
    - inversion Hr; subst. simpl. tauto.
    - destruct ev as [|g e].
      + destruct (rnext_stack_ok subs fwd gs stack Hw Hv) as [st1 [y [ev [E [Hv1 Hy]]]]]. rewrite E in Hr.
        pose proof (rnext_stack_fut subs fwd rk gs Hw (homed_acyc gs Hh) stack st1 y ev Hv E) as Ef.
        destruct (rsrun rest gs st1) as [[[gs2 st2] ys2]|] eqn:Er; [|discriminate]. inversion Hr; subst.
        destruct (IH gs st1 gs' st' ys2 Hw Hh Hv1 Hok Er) as [E1 R]. split; [|exact R].
        rewrite Ef. destruct y as [x|].
        * simpl. destruct (U x); simpl; rewrite E1; reflexivity.
        * rewrite E1, Hy. reflexivity.
      + destruct Hok as [Hc Hok]. set (gs1 := upd gs g (fst (apply_edit e (gs g)))) in *.
        set (W := fun x => negb (existsb (Nat.eqb x) (touched e))).
        assert (HW : forall x, W x = false -> In x (touched e)).
        { intros x Hx. unfold W in Hx. apply negb_false_iff in Hx. apply existsb_exists in Hx.
          destruct Hx as [y [Hy Ey]]. apply Nat.eqb_eq in Ey. subst. exact Hy. }
        assert (Hp : prims W (gs g) (fst (apply_edit e (gs g)))).
        { apply apply_edit_prims; [apply Hw|]. intros x Hx. unfold W. apply negb_false_iff.
          apply existsb_exists. exists x. split; [exact Hx|apply Nat.eqb_refl]. }
        destruct (prims_trav_filter W g _ _ Hp gs gs1 eq_refl (upd_same _ _ _) (fun h Hn => upd_other _ _ _ h Hn) Hw Hh
                    (fun x Hx => Hc x (HW x Hx))) as [F Hh1].
        pose proof (gwf_edit gs g e Hw) as Hw1. pose proof (svalid_edit fwd gs g e stack Hw Hv) as Hv1.
        destruct (IH gs1 stack gs' st' ys Hw1 Hh1 Hv1 Hok Hr) as [E1 R]. split; [|exact R].
        rewrite E1. apply rfut_filter_eq; assumption.
  Qed.
End RecEdits.

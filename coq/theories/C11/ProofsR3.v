(* C11/ProofsR3.v — RecursiveGraphIterator: the `recursive` predicate and the enter/exit callback discipline. *)
From Coq Require Import List Arith ZArith Bool Lia.
From IRV Require Import Base.Exn C11.Model C11.Proofs C11.Proofs2 C11.Proofs3 C11.ProofsR C11.ProofsR2.
Import ListNotations.

(* ---------- the callback trace as a stack discipline: enter pushes, exit must match the innermost open graph *)
Fixpoint cb_run (S : list gid) (ev : list cb) : option (list gid) :=
  match ev with
  | [] => Some S
  | CEnter g :: r => cb_run (g :: S) r
  | CExit g :: r => match S with h :: S' => if h =? g then cb_run S' r else None | [] => None end
  | CRec _ :: r => cb_run S r
  end.

(* graphs a suspended traversal holds open, innermost first: the code enters every subgraph twice (once in
   _iterate_subgraphs, once in the nested iterator) and the top graph once *)
Fixpoint open_of (stack : list frame) : list gid :=
  match stack with
  | [] => []
  | (g, _, _) :: rest => match rest with [] => [g] | _ => g :: g :: open_of rest end
  end.
Definition open_rc (rc : rcursor) : list gid :=
  match rc with RFresh _ => [] | RRun _ stack => open_of stack end.

Lemma cb_run_app S a b :
  cb_run S (a ++ b) = match cb_run S a with Some S' => cb_run S' b | None => None end.
Proof.
  revert S. induction a as [|e a IH]; intros S; simpl; [reflexivity|].
  destruct e as [g|g|x]; [apply IH| |apply IH].
  destruct S as [|h S']; [reflexivity|]. destruct (h =? g); [apply IH|reflexivity].
Qed.

Lemma cb_run_prefix S a b S' : cb_run S (a ++ b) = Some S' -> exists S1, cb_run S a = Some S1.
Proof. rewrite cb_run_app. destruct (cb_run S a) as [S1|]; [intros _; exists S1; reflexivity|discriminate]. Qed.

Lemma open_of_irrel g c p c' p' rest : open_of ((g, c, p) :: rest) = open_of ((g, c', p') :: rest).
Proof. reflexivity. Qed.

Lemma open_of_push h c p f rest : open_of ((h, c, p) :: f :: rest) = h :: h :: open_of (f :: rest).
Proof. reflexivity. Qed.

Section Callbacks.
  Variable subs : elt -> list gid.
  Variable fwd : bool.
  Variable gs : forest.

  Lemma try_pending_cb pend : forall r ev,
    try_pending fwd gs pend = Some (r, ev) ->
    forall S, cb_run S ev = Some (match r with None => S | Some (h, _, _, _) => h :: h :: S end).
  Proof.
    induction pend as [|h t IH]; intros r ev E S; cbn [try_pending] in E.
    - inversion E; subst. reflexivity.
    - destruct (step fwd (gs h) Fresh) as [[c' [x|]]|]; [| |discriminate].
      + inversion E; subst. reflexivity.
      + destruct (try_pending fwd gs t) as [[r' ev']|]; [|discriminate]. inversion E; subst.
        simpl. rewrite !Nat.eqb_refl. apply (IH _ _ eq_refl).
  Qed.

  Lemma try_pending_norec pend : forall r ev,
    try_pending fwd gs pend = Some (r, ev) -> filter is_rec ev = [].
  Proof.
    induction pend as [|h t IH]; intros r ev E; cbn [try_pending] in E.
    - inversion E; subst. reflexivity.
    - destruct (step fwd (gs h) Fresh) as [[c' [x|]]|]; [| |discriminate].
      + inversion E; subst. reflexivity.
      + destruct (try_pending fwd gs t) as [[r' ev']|]; [|discriminate]. inversion E; subst.
        simpl. apply (IH _ _ eq_refl).
  Qed.

  (* one next(): from the open graphs of the old stack the events lead exactly to the open graphs of the new one *)
  Lemma rnext_stack_cb : forall stack st' y ev,
    rnext_stack subs fwd gs stack = Some (st', y, ev) -> cb_run (open_of stack) ev = Some (open_of st').
  Proof.
    induction stack as [|[[g c] pend] rest IH]; intros st' y ev E; cbn [rnext_stack] in E.
    - inversion E; subst. reflexivity.
    - destruct (try_pending fwd gs pend) as [[r ev0]|] eqn:Et; [|discriminate].
      pose proof (try_pending_cb pend r ev0 Et) as Hc.
      destruct r as [[[[h c'] x] t]|].
      + inversion E; subst. rewrite Hc. rewrite open_of_push. reflexivity.
      + destruct (step fwd (gs g) c) as [[c' [x|]]|]; [| |discriminate].
        * inversion E; subst. rewrite Hc. reflexivity.
        * destruct (rnext_stack subs fwd gs rest) as [[[st1 y1] ev1]|] eqn:Er; [|discriminate].
          inversion E; subst. rewrite cb_run_app, Hc, cb_run_app.
          destruct rest as [|f rest'].
          -- simpl. rewrite Nat.eqb_refl. cbn [rnext_stack] in Er. inversion Er; subst. reflexivity.
          -- destruct f as [[g2 c2] p2]. rewrite open_of_push. cbn [cb_run]. rewrite !Nat.eqb_refl.
             apply (IH _ _ _ eq_refl).
  Qed.

  Lemma rnext_stack_norec : forall stack st' y ev,
    rnext_stack subs fwd gs stack = Some (st', y, ev) -> filter is_rec ev = [].
  Proof.
    induction stack as [|[[g c] pend] rest IH]; intros st' y ev E; cbn [rnext_stack] in E.
    - inversion E; subst. reflexivity.
    - destruct (try_pending fwd gs pend) as [[r ev0]|] eqn:Et; [|discriminate].
      pose proof (try_pending_norec pend r ev0 Et) as Hn.
      destruct r as [[[[h c'] x] t]|].
      + inversion E; subst. exact Hn.
      + destruct (step fwd (gs g) c) as [[c' [x|]]|]; [| |discriminate].
        * inversion E; subst. exact Hn.
        * destruct (rnext_stack subs fwd gs rest) as [[[st1 y1] ev1]|] eqn:Er; [|discriminate].
          inversion E; subst. rewrite !filter_app, Hn, (IH _ _ _ eq_refl). destruct rest; reflexivity.
  Qed.

  (* the frame on top after a yield carries exactly the subgraphs of the yielded node *)
  Lemma rnext_stack_pending : forall stack st' x ev,
    rnext_stack subs fwd gs stack = Some (st', Some x, ev) -> exists g c rest, st' = (g, c, subs x) :: rest.
  Proof.
    induction stack as [|[[g c] pend] rest IH]; intros st' x ev E; cbn [rnext_stack] in E.
    - discriminate.
    - destruct (try_pending fwd gs pend) as [[r ev0]|]; [|discriminate].
      destruct r as [[[[h c'] x'] t]|].
      + inversion E; subst. eexists. eexists. eexists. reflexivity.
      + destruct (step fwd (gs g) c) as [[c' [x'|]]|]; [| |discriminate].
        * inversion E; subst. eexists. eexists. eexists. reflexivity.
        * destruct (rnext_stack subs fwd gs rest) as [[[st1 y1] ev1]|] eqn:Er; [|discriminate].
          inversion E; subst. apply (IH _ _ _ eq_refl).
  Qed.
End Callbacks.

(* ---------- next() with the predicate *)
Definition rc_valid (fwd : bool) (gs : forest) (rc : rcursor) : Prop :=
  match rc with RFresh _ => True | RRun _ stack => svalid fwd gs stack end.

Section Predicate.
  Variable subs : elt -> list gid.
  Variable recp : option (elt -> bool).
  Variable fwd : bool.

  Lemma rnext_cb gs rc rc' y ev :
    rnext subs recp fwd gs rc = Some (rc', y, ev) -> cb_run (open_rc rc) ev = Some (open_rc rc').
  Proof.
    destruct rc as [g0|last stack]; cbn [rnext open_rc]; intros E.
    - destruct (rnext_stack (eff_subs subs recp) fwd gs [(g0, Fresh, [])]) as [[[st1 y1] ev1]|] eqn:Er; [|discriminate].
      inversion E; subst. simpl. apply (rnext_stack_cb _ _ _ _ _ _ _ Er).
    - destruct (rnext_stack (eff_subs subs recp) fwd gs stack) as [[[st1 y1] ev1]|] eqn:Er; [|discriminate].
      inversion E; subst. rewrite cb_run_app.
      assert (Hp : cb_run (open_of stack) match last, recp with Some x, Some _ => [CRec x] | _, _ => [] end
                   = Some (open_of stack)) by (destruct last, recp; reflexivity).
      rewrite Hp. apply (rnext_stack_cb _ _ _ _ _ _ _ Er).
  Qed.

  (* next() never raises; a yielded node belongs to the graph of the frame on top, whose pending subgraphs are
     the node's subgraphs if the predicate accepts it and none otherwise; StopIteration leaves the empty stack *)
  Lemma rnext_ok gs rc :
    gwf gs -> rc_valid fwd gs rc ->
    exists rc' y ev, rnext subs recp fwd gs rc = Some (rc', y, ev) /\ rc_valid fwd gs rc' /\
      match y with
      | Some x => exists g c rest, rc' = RRun (Some x) ((g, c, eff_subs subs recp x) :: rest) /\ In x (to_list (gs g))
      | None => rc' = RRun None []
      end.
  Proof.
    intros Hw Hv.
    assert (H : forall stack, svalid fwd gs stack ->
      exists st' y ev, rnext_stack (eff_subs subs recp) fwd gs stack = Some (st', y, ev) /\ svalid fwd gs st' /\
        match y with
        | Some x => exists g c rest, st' = (g, c, eff_subs subs recp x) :: rest /\ In x (to_list (gs g))
        | None => st' = []
        end).
    { intros stack Hs. destruct (rnext_stack_ok (eff_subs subs recp) fwd gs stack Hw Hs) as [st' [y [ev [E [Hv' Hy]]]]].
      exists st', y, ev. split; [exact E|]. split; [exact Hv'|]. destruct y as [x|]; [|exact Hy].
      destruct Hy as [g [c [p [rest [Es Hx]]]]].
      destruct (rnext_stack_pending _ _ _ _ _ _ _ E) as [g' [c' [rest' Es']]].
      rewrite Es in Es'. inversion Es'; subst. exists g', c', rest'. split; [reflexivity|exact Hx]. }
    destruct rc as [g0|last stack]; cbn [rnext rc_valid] in *.
    - destruct (H [(g0, Fresh, [])]) as [st' [y [ev [E [Hv' Hy]]]]]; [constructor; [exact I|constructor]|].
      rewrite E. eexists. eexists. eexists. split; [reflexivity|]. split; [exact Hv'|].
      destruct y as [x|]; [|subst; reflexivity].
      destruct Hy as [g [c [rest [Es Hx]]]]. subst st'. exists g, c, rest. split; [reflexivity|exact Hx].
    - destruct (H stack Hv) as [st' [y [ev [E [Hv' Hy]]]]].
      rewrite E. eexists. eexists. eexists. split; [reflexivity|]. split; [exact Hv'|].
      destruct y as [x|]; [|subst; reflexivity].
      destruct Hy as [g [c [rest [Es Hx]]]]. subst st'. exists g, c, rest. split; [reflexivity|exact Hx].
  Qed.

  (* the predicate is asked exactly once per yielded node, when the iterator resumes, and never otherwise *)
  Lemma rnext_rec_events gs rc rc' y ev :
    rnext subs recp fwd gs rc = Some (rc', y, ev) ->
    filter is_rec ev = match rc, recp with RRun (Some x) _, Some _ => [CRec x] | _, _ => [] end.
  Proof.
    destruct rc as [g0|last stack]; cbn [rnext open_rc]; intros E.
    - destruct (rnext_stack (eff_subs subs recp) fwd gs [(g0, Fresh, [])]) as [[[st1 y1] ev1]|] eqn:Er; [|discriminate].
      inversion E; subst. simpl. apply (rnext_stack_norec _ _ _ _ _ _ _ Er).
    - destruct (rnext_stack (eff_subs subs recp) fwd gs stack) as [[[st1 y1] ev1]|] eqn:Er; [|discriminate].
      inversion E; subst. rewrite filter_app, (rnext_stack_norec _ _ _ _ _ _ _ Er), app_nil_r.
      destruct last, recp; reflexivity.
  Qed.

  (* ---------- whole histories: next() calls interleaved with edits of any graph, with the callback trace *)
  Fixpoint rtrun (evs : list rsev) (gs : forest) (rc : rcursor)
    : option (forest * rcursor * list elt * list cb) :=
    match evs with
    | [] => Some (gs, rc, [], [])
    | RSStep :: rest =>
        match rnext subs recp fwd gs rc with
        | None => None
        | Some (rc1, y, ev) =>
            match rtrun rest gs rc1 with
            | None => None
            | Some (gs', rc', ys, tr) => Some (gs', rc', match y with Some x => x :: ys | None => ys end, ev ++ tr)
            end
        end
    | RSEdit g e :: rest => rtrun rest (upd gs g (fst (apply_edit e (gs g)))) rc
    end.

  Lemma rtrun_cb evs : forall gs rc gs' rc' ys tr,
    rtrun evs gs rc = Some (gs', rc', ys, tr) -> cb_run (open_rc rc) tr = Some (open_rc rc').
  Proof.
    induction evs as [|e rest IH]; intros gs rc gs' rc' ys tr E; simpl in E.
    - inversion E; subst. reflexivity.
    - destruct e as [|g ed].
      + destruct (rnext subs recp fwd gs rc) as [[[rc1 y] ev]|] eqn:En; [|discriminate].
        destruct (rtrun rest gs rc1) as [[[[gs2 rc2] ys2] tr2]|] eqn:Er; [|discriminate]. inversion E; subst.
        rewrite cb_run_app, (rnext_cb gs rc rc1 y ev En). apply (IH _ _ _ _ _ _ Er).
      + apply (IH _ _ _ _ _ _ E).
  Qed.

  Lemma rtrun_total evs : forall gs rc, gwf gs -> rc_valid fwd gs rc -> rtrun evs gs rc <> None.
  Proof.
    induction evs as [|e rest IH]; intros gs rc Hw Hv; simpl; [discriminate|].
    destruct e as [|g ed].
    - destruct (rnext_ok gs rc Hw Hv) as [rc1 [y [ev [E [Hv1 _]]]]]. rewrite E.
      pose proof (IH gs rc1 Hw Hv1) as H. destruct (rtrun rest gs rc1) as [[[[? ?] ?] ?]|]; [discriminate|congruence].
    - apply IH; [apply gwf_edit; exact Hw|]. destruct rc as [g0|last stack]; simpl in *; [exact I|].
      apply svalid_edit; assumption.
  Qed.
End Predicate.

(* a rejected node contributes itself only to the pre-order future *)
Lemma eff_subs_false subs p x : p x = false -> eff_subs subs (Some p) x = [].
Proof. intros H. unfold eff_subs. rewrite H. reflexivity. Qed.
Lemma eff_subs_true subs p x : p x = true -> eff_subs subs (Some p) x = subs x.
Proof. intros H. unfold eff_subs. rewrite H. reflexivity. Qed.

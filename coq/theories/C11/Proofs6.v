(* C11/Proofs6.v — several iterators: each one behaves as if it were alone. *)
From Coq Require Import List Arith ZArith Bool Lia.
From IRV Require Import Base.Exn C11.Model C11.Proofs C11.Proofs2 C11.Proofs3.
Import ListNotations.

Fixpoint run_evs (m : mstate) (evs : list ev) : mstate * list (res (option elt)) :=
  match evs with
  | [] => (m, [])
  | e :: rest => let '(m', r) := run_ev m e in let '(m'', rs) := run_evs m' rest in (m'', r :: rs)
  end.

(* what iterator i sees of a schedule: its own next() calls and the edits *)
Fixpoint proj (i : nat) (evs : list ev) : list sev :=
  match evs with
  | [] => []
  | EStep j :: rest => if j =? i then SStep :: proj i rest else proj i rest
  | EEdit e :: rest => SEdit e :: proj i rest
  | _ :: rest => proj i rest
  end.

Fixpoint yields_of (i : nat) (evs : list ev) (rs : list (res (option elt))) : list elt :=
  match evs, rs with
  | EStep j :: rest, r :: rs' =>
      if j =? i then match r with Ok (Some x) => x :: yields_of i rest rs' | _ => yields_of i rest rs' end
      else yields_of i rest rs'
  | _ :: rest, _ :: rs' => yields_of i rest rs'
  | _, _ => []
  end.

Lemma nth_error_set_nth_ne {A} (l : list A) i j a : i <> j -> nth_error (set_nth l j a) i = nth_error l i.
Proof.
  revert i j. induction l as [|h t IH]; intros i j Hn; [destruct j; reflexivity|].
  destruct j, i; simpl; try reflexivity; try congruence. apply IH. congruence.
Qed.

Lemma nth_error_set_nth_eq {A} (l : list A) i a x : nth_error l i = Some x -> nth_error (set_nth l i a) i = Some a.
Proof.
  revert i. induction l as [|h t IH]; intros i H; [destruct i; discriminate|].
  destruct i; simpl in *; [reflexivity|apply IH; exact H].
Qed.

Theorem cursors_independent evs : forall i s cs fwd c,
  wf s -> nth_error cs i = Some (fwd, c) -> cv fwd s c ->
  exists s' c' ys,
    srun fwd (proj i evs) s c = Some (s', c', ys) /\
    fst (fst (run_evs (s, cs) evs)) = s' /\
    nth_error (snd (fst (run_evs (s, cs) evs))) i = Some (fwd, c') /\
    yields_of i evs (snd (run_evs (s, cs) evs)) = ys.
Proof.
  induction evs as [|e rest IH]; intros i s cs fwd c Hw Hn Hc.
  - exists s, c, []. simpl. repeat split. exact Hn.
  - destruct e as [f|j|ed|k|x]; simpl.
    + (* ENew *)
      assert (Hn' : nth_error (cs ++ [(f, Fresh)]) i = Some (fwd, c)).
      { rewrite nth_error_app1; [exact Hn|]. apply nth_error_Some. congruence. }
      destruct (IH i s _ fwd c Hw Hn' Hc) as [s' [c' [ys [H1 [H2 [H3 H4]]]]]].
      destruct (run_evs (s, cs ++ [(f, Fresh)]) rest) as [m'' rs]. exists s', c', ys. simpl in *. tauto.
    + (* EStep j *)
      destruct (j =? i) eqn:Ej.
      * apply Nat.eqb_eq in Ej. subst j. rewrite Hn.
        destruct (step_cases fwd s c Hw Hc) as [[_ Es]|[b [x [Es [_ [_ [Hcb _]]]]]]]; rewrite Es.
        -- assert (Hn' : nth_error (set_nth cs i (fwd, Done)) i = Some (fwd, Done)) by (eapply nth_error_set_nth_eq; exact Hn).
           destruct (IH i s _ fwd Done Hw Hn' I) as [s' [c' [ys [H1 [H2 [H3 H4]]]]]].
           destruct (run_evs (s, set_nth cs i (fwd, Done)) rest) as [m'' rs]. simpl. rewrite Es, H1.
           exists s', c', ys. simpl in *. tauto.
        -- assert (Hn' : nth_error (set_nth cs i (fwd, Parked b)) i = Some (fwd, Parked b)) by (eapply nth_error_set_nth_eq; exact Hn).
           destruct (IH i s _ fwd (Parked b) Hw Hn' Hcb) as [s' [c' [ys [H1 [H2 [H3 H4]]]]]].
           destruct (run_evs (s, set_nth cs i (fwd, Parked b)) rest) as [m'' rs]. simpl. rewrite Es, H1.
           exists s', c', (x :: ys). simpl in *. rewrite H4. tauto.
      * apply Nat.eqb_neq in Ej.
        destruct (nth_error cs j) as [[fj cj]|] eqn:Enj.
        -- destruct (step fj s cj) as [[cj' y]|] eqn:Es.
           ++ assert (Hn' : nth_error (set_nth cs j (fj, cj')) i = Some (fwd, c)).
              { rewrite nth_error_set_nth_ne by congruence. exact Hn. }
              destruct (IH i s _ fwd c Hw Hn' Hc) as [s' [c' [ys [H1 [H2 [H3 H4]]]]]].
              destruct (run_evs (s, set_nth cs j (fj, cj')) rest) as [m'' rs]. exists s', c', ys. simpl in *. tauto.
           ++ destruct (IH i s cs fwd c Hw Hn Hc) as [s' [c' [ys [H1 [H2 [H3 H4]]]]]].
              destruct (run_evs (s, cs) rest) as [m'' rs]. exists s', c', ys. simpl in *. tauto.
        -- destruct (IH i s cs fwd c Hw Hn Hc) as [s' [c' [ys [H1 [H2 [H3 H4]]]]]].
           destruct (run_evs (s, cs) rest) as [m'' rs]. exists s', c', ys. simpl in *. tauto.
    + (* EEdit *)
      destruct (apply_edit ed s) as [s1 r1] eqn:Ea.
      assert (Hw1 : wf s1) by (pose proof (apply_edit_wf ed s Hw) as H; rewrite Ea in H; exact H).
      assert (Hc1 : cv fwd s1 c).
      { pose proof (prims_fut_filter (fun _ => false) fwd s (fst (apply_edit ed s)) c Hw) as H.
        rewrite Ea in H. simpl in H. apply H; [|exact Hc].
        pose proof (apply_edit_prims (fun _ => false) ed s Hw (fun _ _ => eq_refl)) as P. rewrite Ea in P. exact P. }
      destruct (IH i s1 cs fwd c Hw1 Hn Hc1) as [s' [c' [ys [H1 [H2 [H3 H4]]]]]].
      destruct (run_evs (s1, cs) rest) as [m'' rs]. exists s', c', ys. simpl in *. tauto.
    + destruct (IH i s cs fwd c Hw Hn Hc) as [s' [c' [ys [H1 [H2 [H3 H4]]]]]].
      destruct (run_evs (s, cs) rest) as [m'' rs]. exists s', c', ys. simpl in *. tauto.
    + destruct (IH i s cs fwd c Hw Hn Hc) as [s' [c' [ys [H1 [H2 [H3 H4]]]]]].
      destruct (run_evs (s, cs) rest) as [m'' rs]. exists s', c', ys. simpl in *. tauto.
Qed.

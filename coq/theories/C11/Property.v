(* C11/Property.v — ONLY the property theorems (statements over C11/Model.v), each closed by a lemma of
   Proofs*.v and followed by Print Assumptions.

   Reading of the statement (recorded in harness/props/c11.py):
   * the state of the container is `st`; `wf` is the invariant of every reachable state (C11_wf_init, C11_wf_preserved);
   * an iterator is a `cursor`; `cv` says its box was created by this list (true of every cursor obtained by
     stepping, C11_step_law), `futE fwd s c` is the list of nodes it would yield if no further edit happened;
   * an edit "touches" the nodes it removes / inserts / moves (`touched`), not the node it is relative to. *)
From Coq Require Import List Arith ZArith Bool Lia.
From IRV Require Import Base.Exn C11.Model C11.Proofs C11.Proofs2 C11.Proofs3 C11.Proofs4 C11.Proofs5 C11.Proofs6
  C11.ProofsR C11.ProofsR2 C11.ProofsR3 C11.Heap Gen.C11Gen C11.HeapRun C11.HeapProofs C11.HeapProofs2 C11.HeapProofs3 C11.HeapProofs4 C11.HeapProofs5 C11.HeapProofs6.
Import ListNotations.

(* ---- well-formedness: initial state, preserved by every edit (successes and rejections alike) *)
Theorem C11_wf_init : forall xs, wf (extend xs empty).
Proof.
  intros xs. apply (prims_wf (fun _ => false) empty); [apply wf_empty|].
  apply extend_prims; [apply wf_empty|reflexivity].
Qed.
Print Assumptions C11_wf_init.

Theorem C11_wf_preserved : forall e s, wf s -> wf (fst (apply_edit e s)).
Proof. exact apply_edit_wf. Qed.
Print Assumptions C11_wf_preserved.

(* ---- indexing, length and membership always describe the current sequence; every edit acts on
        list(g) exactly as the plain-list operation and is rejected exactly when the plain list rejects it *)
Theorem C11_refines_list :
  forall e s, wf s -> (to_list (fst (apply_edit e s)), snd (apply_edit e s)) = l_apply e (to_list s).
Proof. exact apply_edit_refines. Qed.
Print Assumptions C11_refines_list.

Theorem C11_observers_agree :
  forall s, wf s ->
    list_of true s = Some (to_list s) /\ list_of false s = Some (rev (to_list s)) /\
    slen s = length (to_list s) /\ NoDup (to_list s) /\
    (forall i, getitem i s = py_index (to_list s) i) /\
    (forall x, mem x s = Ok (existsb (Nat.eqb x) (to_list s))).
Proof.
  intros s Hw. split; [exact (list_of_spec true s Hw)|]. split; [exact (list_of_spec false s Hw)|].
  pose proof Hw as [_ [_ [W3 [W4 _]]]]. split; [unfold to_list; rewrite map_length; exact W4|].
  split; [exact W3|]. split; [intros i; apply getitem_spec; exact Hw|intros x; apply mem_spec; exact Hw].
Qed.
Print Assumptions C11_observers_agree.

(* in range, g[i] returns an element of the list (never StopIteration / model error) *)
Theorem C11_getitem_in_range :
  forall l i, (- Z.of_nat (length l) <= i < Z.of_nat (length l))%Z -> exists x, py_index l i = Ok x /\ In x l.
Proof. exact py_index_in_range. Qed.
Print Assumptions C11_getitem_in_range.

(* ---- one next(): it yields the first node of the iterator's future, which belongs to the graph at that
        moment, and parks there; it stops exactly when the future is empty; it never raises *)
Theorem C11_step_law :
  forall fwd s c, wf s -> cv fwd s c ->
    (futE fwd s c = [] /\ step fwd s c = Some (Done, None)) \/
    (exists b x, step fwd s c = Some (Parked b, Some x) /\ futE fwd s c = x :: futE fwd s (Parked b) /\
                 In x (to_list s) /\ cv fwd s (Parked b) /\ anch (view fwd s) (Parked b) = true).
Proof. exact step_cases. Qed.
Print Assumptions C11_step_law.

(* a new iterator's future is the whole current sequence, in its direction *)
Theorem C11_fresh_future : forall fwd s, futE fwd s Fresh = dir fwd (to_list s).
Proof. exact futE_fresh. Qed.
Print Assumptions C11_fresh_future.

(* ---- termination once edits stop: within len+1 calls the iterator is exhausted, it has yielded exactly
        its future, the structure is unchanged, and no call raised (srun returns Some) *)
Theorem C11_iter_terminates :
  forall fwd s c, wf s -> cv fwd s c ->
    srun fwd (repeat SStep (S (length (live s)))) s c = Some (s, Done, futE fwd s c).
Proof.
  intros fwd s c Hw Hc. apply srun_steps; [exact Hw|exact Hc|].
  pose proof (futE_length fwd s c Hw). lia.
Qed.
Print Assumptions C11_iter_terminates.

(* no schedule of edits and next() calls makes the model raise or get stuck *)
Theorem C11_never_raises :
  forall fwd evs s c, wf s -> cv fwd s c -> srun fwd evs s c <> None.
Proof. exact srun_total. Qed.
Print Assumptions C11_never_raises.

(* ---- the schedule law: for EVERY interleaving of next() calls with edits, and every set U of nodes that
        no edit of the schedule removes, inserts or moves: the U-nodes yielded so far followed by the U-nodes
        still to be yielded are exactly the U-nodes that were to be yielded at the start, in that order *)
Theorem C11_schedule_law :
  forall U fwd evs s c s' c' ys,
    wf s -> cv fwd s c -> untouched U evs -> srun fwd evs s c = Some (s', c', ys) ->
    filter U ys ++ filter U (futE fwd s' c') = filter U (futE fwd s c) /\ wf s' /\ cv fwd s' c'.
Proof. exact sched_law. Qed.
Print Assumptions C11_schedule_law.

(* the headline corollary: an iterator created on s and run to exhaustion under any schedule yields every
   node that was present at the start and never touched exactly once and in graph order (reverse order for
   reversed()) *)
Theorem C11_untouched_once_in_order :
  forall U fwd evs s s' ys,
    wf s -> untouched U evs -> srun fwd evs s Fresh = Some (s', Done, ys) ->
    filter U ys = filter U (dir fwd (to_list s)).
Proof.
  intros U fwd evs s s' ys Hw Hu Hr.
  destruct (sched_law U fwd evs s Fresh s' Done ys Hw I Hu Hr) as [E _].
  rewrite futE_fresh in E. unfold futE in E. simpl in E. rewrite app_nil_r in E. exact E.
Qed.
Print Assumptions C11_untouched_once_in_order.

(* a node that is not in the iterator's future and is not touched later is never yielded (nodes inserted
   before the position are skipped) *)
Theorem C11_not_in_future_never_yielded :
  forall x fwd evs s c s' c' ys,
    wf s -> cv fwd s c -> untouched (Nat.eqb x) evs -> srun fwd evs s c = Some (s', c', ys) ->
    ~ In x (futE fwd s c) -> ~ In x ys.
Proof.
  intros x fwd evs s c s' c' ys Hw Hc Hu Hr Hn Hy.
  destruct (sched_law (Nat.eqb x) fwd evs s c s' c' ys Hw Hc Hu Hr) as [E _].
  assert (H : In x (filter (Nat.eqb x) (futE fwd s c))).
  { unfold elt in *. rewrite <- E. apply in_or_app. left. apply filter_In. split; [exact Hy|apply Nat.eqb_refl]. }
  apply filter_In in H. tauto.
Qed.
Print Assumptions C11_not_in_future_never_yielded.

(* ---- position laws for a new node x next to the node a the iterator is parked on *)
Theorem C11_insert_after_current_forward :
  forall s a x b, wf s -> In (b, a) (live s) -> ~ In x (to_list s) ->
    futE true (fst (apply_edit (InsAfter a [x]) s)) (Parked b) = x :: futE true s (Parked b).
Proof. exact api_fwd_after_current. Qed.
Print Assumptions C11_insert_after_current_forward.

Theorem C11_insert_before_current_forward :
  forall s a x b, wf s -> In (b, a) (live s) -> ~ In x (to_list s) ->
    futE true (fst (apply_edit (InsBefore a [x]) s)) (Parked b) = futE true s (Parked b).
Proof. exact api_fwd_before_current. Qed.
Print Assumptions C11_insert_before_current_forward.

Theorem C11_insert_before_current_backward :
  forall s a x b, wf s -> In (b, a) (live s) -> ~ In x (to_list s) ->
    futE false (fst (apply_edit (InsBefore a [x]) s)) (Parked b) = x :: futE false s (Parked b).
Proof. exact api_bwd_before_current. Qed.
Print Assumptions C11_insert_before_current_backward.

Theorem C11_insert_after_current_backward :
  forall s a x b, wf s -> In (b, a) (live s) -> ~ In x (to_list s) ->
    futE false (fst (apply_edit (InsAfter a [x]) s)) (Parked b) = futE false s (Parked b).
Proof. exact api_bwd_after_current. Qed.
Print Assumptions C11_insert_after_current_backward.

(* the general form (one direction of the structure; both iterators are instances through `view`): a box
   put into the gap l1|l2 enters the future iff the gap lies beyond the iterator's position; a gap exactly AT
   the position counts only while the iterator is still attached to a live box (anch) *)
Theorem C11_insert_position_law :
  forall l1 l2 t bx c,
    dwf (mkD (l1 ++ l2) t) -> ~ In (fst bx) (ids (l1 ++ l2) ++ tids t) -> cvalid (mkD (l1 ++ l2) t) c ->
    fut (mkD (l1 ++ bx :: l2) t) c =
      let f := fut (mkD (l1 ++ l2) t) c in
      if ins_cond l2 f (anch (mkD (l1 ++ l2) t) c) then firstn (length f - length l2) f ++ bx :: l2 else f.
Proof. exact fut_ins. Qed.
Print Assumptions C11_insert_position_law.

(* ---- removal: exactly the removed node disappears from every iterator's future; the iterator parked on
        it resumes with the node that followed it at its original place *)
Theorem C11_remove_law :
  forall fwd s x c, wf s -> In x (to_list s) ->
    futE fwd (fst (apply_edit (Remove x) s)) c = l_remove x (futE fwd s c).
Proof. exact api_remove_law. Qed.
Print Assumptions C11_remove_law.

Theorem C11_remove_current_resumes_at_successor :
  forall fwd s x b, wf s -> In (b, x) (live s) ->
    futE fwd (fst (apply_edit (Remove x) s)) (Parked b) = futE fwd s (Parked b).
Proof. exact api_remove_current. Qed.
Print Assumptions C11_remove_current_resumes_at_successor.

(* moving the current node (what _insert_one_after does with a value already present): wherever it is
   re-inserted, the next node yielded is the one that followed it at its original place *)
Theorem C11_move_current_resumes_at_successor :
  forall fwd s b x r, wf s -> In (b, x) (live s) -> ref_live (erase_box b s) r ->
    hd_error (futE fwd (ins_box r x (erase_box b s)) (Parked b)) = hd_error (futE fwd s (Parked b)).
Proof. exact move_current_law. Qed.
Print Assumptions C11_move_current_resumes_at_successor.

(* ---- any number of simultaneous iterators: iterator i of a multi-iterator schedule behaves exactly as
        if it were alone with the edits (edits never read cursor state, next() never writes the list) *)
Theorem C11_cursors_independent :
  forall evs i s cs fwd c,
    wf s -> nth_error cs i = Some (fwd, c) -> cv fwd s c ->
    exists s' c' ys,
      srun fwd (proj i evs) s c = Some (s', c', ys) /\
      fst (fst (run_evs (s, cs) evs)) = s' /\
      nth_error (snd (fst (run_evs (s, cs) evs))) i = Some (fwd, c') /\
      yields_of i evs (snd (run_evs (s, cs) evs)) = ys.
Proof. exact cursors_independent. Qed.
Print Assumptions C11_cursors_independent.

(* ==== RecursiveGraphIterator: a stack of flat cursors over a forest of lists (gwf = every graph wf, svalid =
        every frame's cursor was obtained from its graph).  `subs x` = graphs under node x; `rfut` = the pre-order
        traversal still to come (pending subgraphs of the last yielded node, then the rest of the frame's graph,
        then the enclosing frames). *)

(* next() never raises / gets stuck, keeps the stack valid, and a yielded node belongs, at that moment, to the
   graph of the frame now on top; StopIteration leaves the empty stack (stays exhausted) *)
Theorem C11_rec_step_safe :
  forall subs fwd gs stack, gwf gs -> svalid fwd gs stack ->
    exists st' y ev, rnext_stack subs fwd gs stack = Some (st', y, ev) /\ svalid fwd gs st' /\
      match y with
      | Some x => exists g c p rest, st' = (g, c, p) :: rest /\ In x (to_list (gs g))
      | None => st' = []
      end.
Proof. exact rnext_stack_ok. Qed.
Print Assumptions C11_rec_step_safe.

(* edits of any graph keep all graphs well formed and all frames valid (edits never read iterator state) *)
Theorem C11_rec_edit_safe :
  forall fwd gs g e stack, gwf gs -> svalid fwd gs stack ->
    gwf (upd gs g (fst (apply_edit e (gs g)))) /\ svalid fwd (upd gs g (fst (apply_edit e (gs g)))) stack.
Proof. intros. split; [apply gwf_edit; assumption|apply svalid_edit; assumption]. Qed.
Print Assumptions C11_rec_edit_safe.

(* on an acyclic forest (rk bounds the nesting) next() yields the head of the pre-order future, leaves its tail *)
Theorem C11_rec_step_law :
  forall subs fwd rk gs, gwf gs -> acyc subs rk gs -> forall stack st' y ev,
    svalid fwd gs stack -> rnext_stack subs fwd gs stack = Some (st', y, ev) ->
    rfut subs fwd rk gs stack = match y with Some x => x :: rfut subs fwd rk gs st' | None => [] end.
Proof. exact rnext_stack_fut. Qed.
Print Assumptions C11_rec_step_law.

(* once edits stop: within |future|+1 calls the traversal is over, having yielded exactly the pre-order future *)
Theorem C11_rec_terminates :
  forall subs fwd rk gs, gwf gs -> acyc subs rk gs -> forall n stack,
    svalid fwd gs stack -> length (rfut subs fwd rk gs stack) < n ->
    riter subs fwd gs n stack = Some ([], rfut subs fwd rk gs stack).
Proof. exact riter_terminates. Qed.
Print Assumptions C11_rec_terminates.

(* the recursive schedule law: nodes live in a fixed graph (`home`), nesting is acyclic (sub_rank); for every
   interleaving of next() with edits of any graph, and every node set U such that no edit touches a U node or a
   node with a U node underneath (edit_clear): U-yields so far ++ U-part of the pre-order future = the U-part of
   the pre-order future at the start *)
Theorem C11_rec_schedule_law :
  forall subs fwd rk home, (forall x h, In h (subs x) -> rk h < rk (home x)) ->
  forall U evs gs stack gs' st' ys,
    gwf gs -> homed home gs -> svalid fwd gs stack -> redits_ok subs fwd home U evs ->
    rsrun subs fwd evs gs stack = Some (gs', st', ys) ->
    filter U ys ++ filter U (rfut subs fwd rk gs' st') = filter U (rfut subs fwd rk gs stack) /\
    gwf gs' /\ homed home gs' /\ svalid fwd gs' st'.
Proof. intros subs fwd rk home Hs U evs. exact (rsched_law subs fwd rk home Hs U evs). Qed.
Print Assumptions C11_rec_schedule_law.

(* headline: a recursive iterator started on graph g0 and run to exhaustion under any such schedule yields the
   untouched nodes exactly once, in pre-order of the initial forest *)
Theorem C11_rec_untouched_once_in_preorder :
  forall subs fwd rk home, (forall x h, In h (subs x) -> rk h < rk (home x)) ->
  forall U evs gs g0 gs' ys,
    gwf gs -> homed home gs -> redits_ok subs fwd home U evs ->
    rsrun subs fwd evs gs [(g0, Fresh, [])] = Some (gs', [], ys) ->
    filter U ys = filter U (travg subs fwd rk gs g0 Fresh).
Proof.
  intros subs fwd rk home Hs U evs gs g0 gs' ys Hw Hh Hok Hr.
  assert (Hv : svalid fwd gs [(g0, Fresh, [])]) by (constructor; [exact I|constructor]).
  destruct (rsched_law subs fwd rk home Hs U evs gs _ gs' [] ys Hw Hh Hv Hok Hr) as [E _].
  simpl in E. rewrite !app_nil_r in E. exact E.
Qed.
Print Assumptions C11_rec_untouched_once_in_preorder.

(* the side condition is satisfiable: a node without subgraphs has nothing underneath *)
Example C11_rec_clear_leaf :
  forall subs fwd U gs x, subs x = [] -> clearU subs fwd U gs x.
Proof. intros subs fwd U gs x E k y H. rewrite E in H. destruct H. Qed.

(* a concrete nested traversal: graph 0 = [1;2], node 1 carries graphs 1 and 2, graph 1 = [11;12], graph 2 = [21];
   remove the node being visited (11), append 13 to its graph, remove the enclosing node 1: the traversal goes on
   inside the subgraphs, then returns to graph 0 at node 2.  Callbacks: enter/exit twice per subgraph. *)
Definition ex_subs (x : elt) : list gid := if x =? 1 then [1; 2] else [].
Definition ex_forest : forest := init_forest [[1; 2]; [11; 12]; [21]] 0.
Example C11_rec_example :
  exists gs' , rsrun ex_subs true
     [RSStep; RSStep; RSEdit 1 (Remove 11); RSEdit 1 (Append 13); RSEdit 0 (Remove 1); RSStep; RSStep; RSStep; RSStep; RSStep]
     ex_forest [(0, Fresh, [])] = Some (gs', [], [1; 11; 12; 13; 21; 2]) /\
  option_map (fun r => snd r) (rnext ex_subs None true ex_forest (RFresh 0)) = Some [CEnter 0] /\
  option_map (fun r => snd r) (rnext_stack ex_subs true ex_forest [(0, Parked 0, [1; 2])])
    = Some [CEnter 1; CEnter 1].
Proof. eexists. vm_compute. repeat split. Qed.

(* ==== the `recursive` predicate and the enter_graph / exit_graph callbacks (ProofsR3.v).
   `rnext subs recp` is next() of RecursiveGraphIterator(recursive=recp, enter_graph=.., exit_graph=..): all the laws
   above hold with `eff_subs subs recp` in place of `subs` (a node the predicate rejects has no subgraphs for this
   traversal); the events of a call are its callback trace: CEnter g / CExit g / CRec x (= recursive(x) was called). *)

(* next() never raises; the yielded node belongs to the graph of the frame on top; that frame will descend into
   exactly the node's subgraphs if the predicate accepts the node and into none otherwise; StopIteration leaves the
   exhausted iterator *)
Theorem C11_rec_next_safe :
  forall subs recp fwd gs rc, gwf gs -> rc_valid fwd gs rc ->
    exists rc' y ev, rnext subs recp fwd gs rc = Some (rc', y, ev) /\ rc_valid fwd gs rc' /\
      match y with
      | Some x => exists g c rest, rc' = RRun (Some x) ((g, c, eff_subs subs recp x) :: rest) /\ In x (to_list (gs g))
      | None => rc' = RRun None []
      end.
Proof. exact rnext_ok. Qed.
Print Assumptions C11_rec_next_safe.

Theorem C11_rec_predicate_rule :
  forall subs p x, (p x = false -> eff_subs subs (Some p) x = []) /\ (p x = true -> eff_subs subs (Some p) x = subs x)
                   /\ eff_subs subs None x = subs x.
Proof. intros. split; [apply eff_subs_false|split; [apply eff_subs_true|reflexivity]]. Qed.
Print Assumptions C11_rec_predicate_rule.

(* the predicate is called exactly once per yielded node — when the iterator resumes after that node — and at no
   other time (never at all when no predicate was given) *)
Theorem C11_rec_predicate_asked_once :
  forall subs recp fwd gs rc rc' y ev,
    rnext subs recp fwd gs rc = Some (rc', y, ev) ->
    filter is_rec ev = match rc, recp with RRun (Some x) _, Some _ => [CRec x] | _, _ => [] end.
Proof. exact rnext_rec_events. Qed.
Print Assumptions C11_rec_predicate_asked_once.

(* callbacks, one call: starting from the graphs the suspended traversal holds open (innermost first), the
   enter/exit events of the call are a legal stack history (every exit closes the innermost open graph) ending in
   the graphs the new state holds open *)
Theorem C11_rec_callbacks_step :
  forall subs recp fwd gs rc rc' y ev,
    rnext subs recp fwd gs rc = Some (rc', y, ev) -> cb_run (open_rc rc) ev = Some (open_rc rc').
Proof. exact rnext_cb. Qed.
Print Assumptions C11_rec_callbacks_step.

(* callbacks, every history: for ANY interleaving of next() calls with edits of any graph (no hypothesis on the
   forest at all) the whole callback trace is properly nested ... *)
Theorem C11_rec_callbacks_nested :
  forall subs recp fwd evs gs rc gs' rc' ys tr,
    rtrun subs recp fwd evs gs rc = Some (gs', rc', ys, tr) -> cb_run (open_rc rc) tr = Some (open_rc rc').
Proof. intros subs recp fwd evs. exact (rtrun_cb subs recp fwd evs). Qed.
Print Assumptions C11_rec_callbacks_nested.

(* ... and balanced once the traversal is exhausted: every enter_graph has its exit_graph, innermost first *)
Theorem C11_rec_callbacks_balanced :
  forall subs recp fwd evs gs g0 gs' last ys tr,
    rtrun subs recp fwd evs gs (RFresh g0) = Some (gs', RRun last [], ys, tr) -> cb_run [] tr = Some [].
Proof. intros subs recp fwd evs gs g0 gs' last ys tr H. exact (rtrun_cb subs recp fwd evs gs (RFresh g0) gs' _ ys tr H). Qed.
Print Assumptions C11_rec_callbacks_balanced.

(* a prefix of a legal callback history is legal (no call ever closes a graph that is not the innermost open one) *)
Theorem C11_rec_callbacks_prefix :
  forall S a b S', cb_run S (a ++ b) = Some S' -> exists S1, cb_run S a = Some S1.
Proof. exact cb_run_prefix. Qed.
Print Assumptions C11_rec_callbacks_prefix.

(* no history makes the iterator raise or get stuck *)
Theorem C11_rec_history_never_raises :
  forall subs recp fwd evs gs rc, gwf gs -> rc_valid fwd gs rc -> rtrun subs recp fwd evs gs rc <> None.
Proof. intros subs recp fwd evs. exact (rtrun_total subs recp fwd evs). Qed.
Print Assumptions C11_rec_history_never_raises.

(* predicate rejecting node 1 (which carries graphs 1 and 2): only graph 0 is walked, its callbacks are balanced,
   the predicate is asked once for each of 1 and 2; with the predicate accepting everything the subgraphs are
   entered and left twice each, properly nested, also when the enclosing node is removed mid-way *)
Example C11_rec_predicate_example :
  (exists gs' rc', rtrun ex_subs (Some (fun x => negb (x =? 1))) true [RSStep; RSStep; RSStep] ex_forest (RFresh 0)
     = Some (gs', rc', [1; 2], [CEnter 0; CRec 1; CRec 2; CExit 0])) /\
  (exists gs' rc' tr, rtrun ex_subs (Some (fun _ => true)) true
       [RSStep; RSStep; RSEdit 0 (Remove 1); RSStep; RSStep; RSStep; RSStep] ex_forest (RFresh 0)
     = Some (gs', rc', [1; 11; 12; 21; 2], tr) /\ cb_run [] tr = Some [] /\
       tr = [CEnter 0; CRec 1; CEnter 1; CEnter 1; CRec 11; CRec 12; CExit 1; CExit 1; CEnter 2; CEnter 2;
             CRec 21; CExit 2; CExit 2; CRec 2; CExit 0]).
Proof. split; [eexists; eexists; vm_compute; reflexivity|]. eexists. eexists. eexists. vm_compute. repeat split. Qed.

(* ==== the pointer code itself.  Gen/C11Gen.v is regenerated on every run from src/onnx_ir/_linked_list.py
   (statement by statement, fail-closed) into the heap monad of C11/Heap.v: boxes with prev/next/value/owning_list,
   _root, _length, the id->box dict.  `R h s` = heap h represents model state s: every live box and the root
   carry the pointers DERIVED from the live sequence (prv/nxt), every erased box its frozen pointers, _length and
   the dict agree.  The theorems below are about the GENERATED definitions: a change of the source changes the
   definitions and the proofs are re-checked against it (or the translator rejects it).
   Proved: every translated mutator refines the model's edit (C11_heap_edit_refines), both translated generators
   refine the model's cursor step (C11_heap_iter_refines), list()/reversed()/len read back the model's sequence
   (C11_heap_observers_refine).  Not translated: __getitem__ / __contains__ / __len__'s assertion (thin hand-written
   layer in HeapRun.v over the translated iterators). *)
Theorem C11_heap_R_init : R empty_heap empty.
Proof. exact R_empty. Qed.
Print Assumptions C11_heap_R_init.

(* every translated mutator (append, extend, insert_after, insert_before, remove — through the translated
   _insert_one_after, _insert_many_after, _LinkBox.__init__, _LinkBox.erase) acts on the box heap as the model's
   edit acts on the sequence + tombstone state: same outcome (Ok / the same exception), related states *)
Theorem C11_heap_edit_refines :
  forall e h s, R h s ->
    fst (happly e h) = snd (apply_edit e s) /\ R (snd (happly e h)) (fst (apply_edit e s)).
Proof. exact happly_refines. Qed.
Print Assumptions C11_heap_edit_refines.

(* next() of the translated __iter__ / __reversed__ (start or resume, then run to the next yield or the end of
   the while loop, with the owning_list check and the asserts) = the model's cursor step; box b of the model is
   heap address S b.  With C11_step_law: it never raises on a heap representing a well-formed state. *)
Theorem C11_heap_iter_refines :
  forall fwd h s c c' y, R h s -> step fwd s c = Some (c', y) -> hstep fwd h (cmap c) = Ok (cmap c', y).
Proof. exact hstep_refines. Qed.
Print Assumptions C11_heap_iter_refines.

Theorem C11_heap_observers_refine :
  forall fwd h s, R h s ->
    hlist_of fwd h = Some (dir fwd (to_list s)) /\ hlen h = Z.of_nat (length (to_list s)).
Proof. exact hlist_of_refines. Qed.
Print Assumptions C11_heap_observers_refine.

(* translated _LinkBox.erase: raises on an erased box (heap untouched), otherwise exactly the pointer surgery *)
Theorem C11_heap_erase_eval :
  forall h sb, py_erase sb h =
    match b_val (hbox h sb) with None => (Raise ValueError, h) | Some _ => (Ok tt, erase_heap h sb) end.
Proof. exact py_erase_eval. Qed.
Print Assumptions C11_heap_erase_eval.

Theorem C11_pointer_laws :
  (forall l b r, NoDup (ids l) -> In b (ids l) -> rlive l r -> r <> B b ->
     nxt (rm_box b l) r = (if ref_eqb r (prv l (B b)) then nxt l (B b) else nxt l r) /\
     prv (rm_box b l) r = (if ref_eqb r (nxt l (B b)) then prv l (B b) else prv l r)) /\
  (forall l1 l2 bx r, NoDup (ids (l1 ++ bx :: l2)) -> rlive (l1 ++ bx :: l2) r ->
     nxt (l1 ++ bx :: l2) r = (if ref_eqb r (last_ref l1) then B (fst bx)
                               else if ref_eqb r (B (fst bx)) then head_ref l2 else nxt (l1 ++ l2) r) /\
     prv (l1 ++ bx :: l2) r = (if ref_eqb r (head_ref l2) then B (fst bx)
                               else if ref_eqb r (B (fst bx)) then last_ref l1 else prv (l1 ++ l2) r)).
Proof.
  split.
  - intros l b r H1 H2 H3 H4. split; [apply nxt_erase|apply prv_erase]; assumption.
  - intros l1 l2 bx r H1 H2. split; [apply nxt_insert|apply prv_insert]; assumption.
Qed.
Print Assumptions C11_pointer_laws.

(* non-vacuity: the translated code, run on the empty heap, builds a heap related to the model state, and the
   translated remove keeps the relation observable (lists read back through the translated iterators) *)
Example C11_heap_example :
  let h := snd (py_extend [1; 2; 3] empty_heap) in
  let h' := snd (py_remove 2 h) in
  C11.HeapRun.hlist_of true h = Some [1; 2; 3] /\ C11.HeapRun.hlist_of false h' = Some [3; 1] /\
  hlen h' = 2%Z /\ hbox h' 2 = mkBox 1 3 None SELF /\ fst (py_remove 2 h') = Raise ValueError.
Proof. vm_compute. repeat split. Qed.

(* ---- non-vacuity: a reachable state with tombstones, a cursor parked on an erased box whose chain runs
        through a second erased box; the hypotheses of the theorems hold and the laws are observable *)
Definition ex_s : st :=
  fst (apply_edit (Remove 3) (fst (apply_edit (Remove 2) (extend [1; 2; 3; 4; 5] empty)))).
Example C11_example_state :
  to_list ex_s = [1; 4; 5] /\ length (tomb ex_s) = 2 /\
  futE true ex_s (Parked 1) = [4; 5] /\             (* parked on erased box of 2: chain 2 -> 3 -> 4 *)
  futE false ex_s (Parked 2) = [1] /\               (* backwards, parked on erased box of 3: chain 3 -> 2 -> 1 *)
  step true ex_s (Parked 1) = Some (Parked 3, Some 4) /\
  cv true ex_s (Parked 1) /\ anch (view true ex_s) (Parked 1) = false /\
  (* a node inserted at the removed node's old place is skipped by the detached cursor ... *)
  futE true (fst (apply_edit (InsBefore 4 [9]) ex_s)) (Parked 1) = [4; 5] /\
  (* ... and seen by a cursor still attached to node 1 *)
  futE true (fst (apply_edit (InsBefore 4 [9]) ex_s)) (Parked 0) = [9; 4; 5].
Proof. vm_compute. repeat split. right. left. reflexivity. Qed.

Example C11_example_wf : wf ex_s.
Proof. unfold ex_s. apply C11_wf_preserved. apply C11_wf_preserved. apply C11_wf_init. Qed.

(* remove the current node, then its successor, then re-insert the first one behind the survivor: the iterator
   resumes at 3 (the node that followed at the original place) and then yields the re-inserted 1 again *)
Example C11_example_schedule :
  exists s', srun true [SStep; SEdit (Remove 1); SEdit (Remove 2); SEdit (InsAfter 3 [1]); SStep; SStep; SStep]
       (extend [1; 2; 3] empty) Fresh = Some (s', Done, [1; 3; 1]) /\ to_list s' = [3; 1].
Proof. eexists. vm_compute. split; reflexivity. Qed.

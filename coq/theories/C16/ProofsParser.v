(* C16/ProofsParser.v — the recursive-descent parser against a reference grammar.

   Reference grammar (docstring of _ExpressionParser, with the standard reading):
     expr    -> term (('+' | '-') term)*               left-associative
     term    -> unary (('*' | '/' | '//' | '%') unary)* left-associative
     unary   -> '-' unary | power                       unary minus binds LOOSER than '**'
     power   -> primary ('**' unary)?                   right-associative, signed exponent
     primary -> NUMBER | IDENT | IDENT '(' args ')' | '(' expr ')'
     args    -> expr (',' expr)*
   written as inductive relations `d_*  tokens tree` (the iteration `x (op x)*` as a tail relation that
   folds to the LEFT; ProofsParser2.v shows it coincides with the left-recursive formulation). *)
From Coq Require Import ZArith NArith List Bool Lia.
From IRV Require Import Base.Exn Gen.C16Gen C16.Model.
Import ListNotations.

Inductive d_expr : list token -> expr -> Prop :=
| DE ts1 ts2 a e : d_term ts1 a -> d_expr_tail a ts2 e -> d_expr (ts1 ++ ts2) e
with d_expr_tail : expr -> list token -> expr -> Prop :=
| DEnil a : d_expr_tail a [] a
| DEcons a o mk ts1 ts2 b e :
    addop o = Some mk -> d_term ts1 b -> d_expr_tail (mk a b) ts2 e -> d_expr_tail a (TOp o :: ts1 ++ ts2) e
with d_term : list token -> expr -> Prop :=
| DT ts1 ts2 a e : d_unary ts1 a -> d_term_tail a ts2 e -> d_term (ts1 ++ ts2) e
with d_term_tail : expr -> list token -> expr -> Prop :=
| DTnil a : d_term_tail a [] a
| DTcons a o mk ts1 ts2 b e :
    mulop o = Some mk -> d_unary ts1 b -> d_term_tail (mk a b) ts2 e -> d_term_tail a (TOp o :: ts1 ++ ts2) e
with d_unary : list token -> expr -> Prop :=
| DUneg ts e : d_unary ts e -> d_unary (TOp OMinus :: ts) (ENeg e)
| DUpow ts e : d_power ts e -> d_unary ts e
with d_power : list token -> expr -> Prop :=
| DPprim ts e : d_primary ts e -> d_power ts e
| DPpow ts1 ts2 b e : d_primary ts1 b -> d_unary ts2 e -> d_power (ts1 ++ TOp OPow :: ts2) (EBin BPow b e)
with d_primary : list token -> expr -> Prop :=
| DPnum n : d_primary [TNum n] (EInt (Z.of_N n))
| DPid s : d_primary [TId s] (ESym s)
| DPparen ts e : d_expr ts e -> d_primary (TLP :: ts ++ [TRP]) e
| DPcall0 s k e : lookup_fn s = Some k -> apply_fn k [] = Some e -> d_primary [TId s; TLP; TRP] e
| DPcall s k ts1 ts2 e1 args e :
    lookup_fn s = Some k -> d_expr ts1 e1 -> d_args_tail [e1] ts2 args -> apply_fn k args = Some e ->
    d_primary (TId s :: TLP :: ts1 ++ ts2 ++ [TRP]) e
with d_args_tail : list expr -> list token -> list expr -> Prop :=
| DAnil acc : d_args_tail acc [] acc
| DAcons acc ts1 ts2 e args :
    d_expr ts1 e -> d_args_tail (acc ++ [e]) ts2 args -> d_args_tail acc (TComma :: ts1 ++ ts2) args.

Scheme d_expr_ind' := Induction for d_expr Sort Prop
  with d_expr_tail_ind' := Induction for d_expr_tail Sort Prop
  with d_term_ind' := Induction for d_term Sort Prop
  with d_term_tail_ind' := Induction for d_term_tail Sort Prop
  with d_unary_ind' := Induction for d_unary Sort Prop
  with d_power_ind' := Induction for d_power Sort Prop
  with d_primary_ind' := Induction for d_primary Sort Prop
  with d_args_tail_ind' := Induction for d_args_tail Sort Prop.
Combined Scheme d_mutind from d_expr_ind', d_expr_tail_ind', d_term_ind', d_term_tail_ind',
  d_unary_ind', d_power_ind', d_primary_ind', d_args_tail_ind'.

(* the whole token list derives the tree *)
Definition derives_ref (ts : list token) (e : expr) : Prop := d_expr ts e.

(* a derivation never starts with ')' (and is not empty) *)
Definition starts_ok (ts : list token) : Prop :=
  match ts with [] => False | TRP :: _ => False | _ => True end.
Lemma starts_ok_app a b : starts_ok a -> starts_ok (a ++ b).
Proof. destruct a as [|[]]; simpl; intros H; try contradiction; exact I. Qed.

Lemma derivation_start :
  (forall ts e, d_expr ts e -> starts_ok ts) /\
  (forall a ts e, d_expr_tail a ts e -> True) /\
  (forall ts e, d_term ts e -> starts_ok ts) /\
  (forall a ts e, d_term_tail a ts e -> True) /\
  (forall ts e, d_unary ts e -> starts_ok ts) /\
  (forall ts e, d_power ts e -> starts_ok ts) /\
  (forall ts e, d_primary ts e -> starts_ok ts) /\
  (forall acc ts args, d_args_tail acc ts args -> True).
Proof.
  apply d_mutind; intros; simpl; auto using starts_ok_app.
Qed.

Lemma start_expr ts e : d_expr ts e -> starts_ok ts.
Proof. destruct derivation_start as (H & _). apply H. Qed.
Lemma start_power ts e : d_power ts e -> starts_ok ts.
Proof. destruct derivation_start as (_ & _ & _ & _ & _ & H & _). apply H. Qed.

(* ------------------------------------------------------------------ soundness *)
Lemma pbind_ok {A B} (r : pres A) (f : A -> list token -> pres B) b rest :
  pbind r f = POk b rest -> exists a r1, r = POk a r1 /\ f a r1 = POk b rest.
Proof. destruct r; simpl; intros H; try discriminate. eauto. Qed.

Definition sound_level (p : parsers) : Prop :=
  (forall ts e r, P_expr p ts = POk e r -> exists pre, ts = pre ++ r /\ d_expr pre e) /\
  (forall ts e r, P_term p ts = POk e r -> exists pre, ts = pre ++ r /\ d_term pre e) /\
  (forall ts e r, P_unary p ts = POk e r -> exists pre, ts = pre ++ r /\ d_unary pre e) /\
  (forall acc ts args r, P_args_loop p acc ts = POk args r -> exists pre, ts = pre ++ r /\ d_args_tail acc pre args) /\
  (forall a ts e r, P_term_loop p a ts = POk e r -> exists pre, ts = pre ++ r /\ d_term_tail a pre e) /\
  (forall a ts e r, P_expr_loop p a ts = POk e r -> exists pre, ts = pre ++ r /\ d_expr_tail a pre e).

Lemma sound_level0 : sound_level level0.
Proof. repeat split; simpl; intros; discriminate. Qed.

Section SoundStep.
  Variable p : parsers.
  Hypothesis Hp : sound_level p.

  Lemma primary_sound ts e r : primary_of p ts = POk e r -> exists pre, ts = pre ++ r /\ d_primary pre e.
  Proof.
    destruct Hp as (He & _ & _ & Ha & _ & _).
    unfold primary_of. destruct ts as [|t ts]; [discriminate|].
    destruct t as [n|s|o| | |]; try discriminate.
    - intros H. inversion H; subst. exists [TNum n]. split; [reflexivity|constructor].
    - destruct ts as [|t2 ts2].
      { intros H. inversion H; subst. exists [TId s]. split; [reflexivity|constructor]. }
      destruct t2 as [n2|s2|o2| | |];
        try (intros H; inversion H; subst; exists [TId s]; split; [reflexivity|constructor]).
      destruct (lookup_fn s) as [k|] eqn:Ek; [|discriminate].
      destruct ts2 as [|t3 ts3].
      { intros H. apply pbind_ok in H. destruct H as (e1 & r1 & H1 & _).
        apply He in H1. destruct H1 as (pre & E & D). exfalso.
        destruct pre; [|discriminate]. apply start_expr in D. exact D. }
      destruct t3 as [n3|s3|o3| | |].
      5:{ (* TRP: empty argument list *)
          destruct (apply_fn k []) as [e0|] eqn:Eap; [|discriminate].
          intros H. inversion H; subst. exists [TId s; TLP; TRP]. split; [reflexivity|].
          eapply DPcall0; eassumption. }
      all: intros H; apply pbind_ok in H; destruct H as (e1 & r1 & H1 & H);
        apply pbind_ok in H; destruct H as (args & r2 & H2 & H);
        destruct r2 as [|t4 r3]; try discriminate; destruct t4; try discriminate;
        destruct (apply_fn k args) as [e0|] eqn:Eap; try discriminate;
        inversion H; subst; clear H;
        apply He in H1; destruct H1 as (pre1 & E1 & D1);
        apply Ha in H2; destruct H2 as (pre2 & E2 & D2);
        exists (TId s :: TLP :: pre1 ++ pre2 ++ [TRP]); (split;
          [ simpl; f_equal; f_equal; rewrite E1, E2, <- !app_assoc; reflexivity
          | eapply DPcall; eassumption ]).
    - intros H. apply pbind_ok in H. destruct H as (e1 & r1 & H1 & H).
      destruct r1 as [|t4 r3]; try discriminate. destruct t4; try discriminate.
      inversion H; subst; clear H. apply He in H1. destruct H1 as (pre1 & E1 & D1).
      exists (TLP :: pre1 ++ [TRP]). split; [simpl; rewrite E1, <- app_assoc; reflexivity|].
      constructor. exact D1.
  Qed.

  Lemma power_sound ts e r : power_of p ts = POk e r -> exists pre, ts = pre ++ r /\ d_power pre e.
  Proof.
    destruct Hp as (_ & _ & Hu & _ & _ & _).
    unfold power_of. intros H. apply pbind_ok in H. destruct H as (b & r1 & H1 & H).
    apply primary_sound in H1. destruct H1 as (pre1 & E1 & D1).
    assert (Hdef : POk b r1 = POk e r -> exists pre, ts = pre ++ r /\ d_power pre e).
    { intros X. inversion X; subst. exists pre1. split; [reflexivity|]. constructor. exact D1. }
    destruct r1 as [|t r2]; [exact (Hdef H)|].
    destruct t as [n|s|o| | |]; try exact (Hdef H).
    destruct o; try exact (Hdef H).
    apply pbind_ok in H. destruct H as (x & r3 & H2 & H). inversion H; subst; clear H.
    apply Hu in H2. destruct H2 as (pre2 & E2 & D2).
    exists (pre1 ++ TOp OPow :: pre2). split.
    - rewrite E2, <- app_assoc. reflexivity.
    - constructor; assumption.
  Qed.

  Lemma unary_sound ts e r : unary_of p ts = POk e r -> exists pre, ts = pre ++ r /\ d_unary pre e.
  Proof.
    destruct Hp as (_ & _ & Hu & _ & _ & _).
    assert (Hdef : power_of p ts = POk e r -> exists pre, ts = pre ++ r /\ d_unary pre e).
    { intros H. apply power_sound in H. destruct H as (pre & E & D). exists pre. split; [exact E|].
      apply DUpow. exact D. }
    unfold unary_of. destruct ts as [|t ts']; [exact Hdef|].
    destruct t as [n|s|o| | |]; try exact Hdef. destruct o; try exact Hdef.
    intros H. apply pbind_ok in H. destruct H as (x & r1 & H1 & H). inversion H; subst; clear H.
    apply Hu in H1. destruct H1 as (pre & E & D). exists (TOp OMinus :: pre). split.
    - simpl. rewrite E. reflexivity.
    - constructor. exact D.
  Qed.

  Lemma term_loop_sound a ts e r :
    term_loop_of p a ts = POk e r -> exists pre, ts = pre ++ r /\ d_term_tail a pre e.
  Proof.
    destruct Hp as (_ & _ & Hu & _ & Htl & _).
    assert (Hdef : POk a ts = POk e r -> exists pre, ts = pre ++ r /\ d_term_tail a pre e).
    { intros X. inversion X; subst. exists []. split; [reflexivity|constructor]. }
    unfold term_loop_of. destruct ts as [|t ts']; [exact Hdef|].
    destruct t as [n|s|o| | |]; try exact Hdef.
    destruct (mulop o) as [mk|] eqn:Em; [|exact Hdef].
    intros H. apply pbind_ok in H. destruct H as (b & r1 & H1 & H).
    apply Hu in H1. destruct H1 as (pre1 & E1 & D1).
    apply Htl in H. destruct H as (pre2 & E2 & D2).
    exists (TOp o :: pre1 ++ pre2). split.
    - simpl. rewrite E1, E2, <- app_assoc. reflexivity.
    - econstructor; eassumption.
  Qed.

  Lemma term_sound ts e r : term_of p ts = POk e r -> exists pre, ts = pre ++ r /\ d_term pre e.
  Proof.
    unfold term_of. intros H. apply pbind_ok in H. destruct H as (a & r1 & H1 & H).
    apply unary_sound in H1. destruct H1 as (pre1 & E1 & D1).
    apply term_loop_sound in H. destruct H as (pre2 & E2 & D2).
    exists (pre1 ++ pre2). split.
    - rewrite E1, E2, <- app_assoc. reflexivity.
    - econstructor; eassumption.
  Qed.

  Lemma expr_loop_sound a ts e r :
    expr_loop_of p a ts = POk e r -> exists pre, ts = pre ++ r /\ d_expr_tail a pre e.
  Proof.
    destruct Hp as (_ & Ht & _ & _ & _ & Hel).
    assert (Hdef : POk a ts = POk e r -> exists pre, ts = pre ++ r /\ d_expr_tail a pre e).
    { intros X. inversion X; subst. exists []. split; [reflexivity|constructor]. }
    unfold expr_loop_of. destruct ts as [|t ts']; [exact Hdef|].
    destruct t as [n|s|o| | |]; try exact Hdef.
    destruct (addop o) as [mk|] eqn:Em; [|exact Hdef].
    intros H. apply pbind_ok in H. destruct H as (b & r1 & H1 & H).
    apply Ht in H1. destruct H1 as (pre1 & E1 & D1).
    apply Hel in H. destruct H as (pre2 & E2 & D2).
    exists (TOp o :: pre1 ++ pre2). split.
    - simpl. rewrite E1, E2, <- app_assoc. reflexivity.
    - econstructor; eassumption.
  Qed.

  Lemma expr_sound ts e r : expr_of p ts = POk e r -> exists pre, ts = pre ++ r /\ d_expr pre e.
  Proof.
    unfold expr_of. intros H. apply pbind_ok in H. destruct H as (a & r1 & H1 & H).
    apply term_sound in H1. destruct H1 as (pre1 & E1 & D1).
    apply expr_loop_sound in H. destruct H as (pre2 & E2 & D2).
    exists (pre1 ++ pre2). split.
    - rewrite E1, E2, <- app_assoc. reflexivity.
    - econstructor; eassumption.
  Qed.

  Lemma args_loop_sound acc ts args r :
    args_loop_of p acc ts = POk args r -> exists pre, ts = pre ++ r /\ d_args_tail acc pre args.
  Proof.
    destruct Hp as (He & _ & _ & Ha & _ & _).
    assert (Hdef : POk acc ts = POk args r -> exists pre, ts = pre ++ r /\ d_args_tail acc pre args).
    { intros X. inversion X; subst. exists []. split; [reflexivity|constructor]. }
    unfold args_loop_of. destruct ts as [|t ts']; [exact Hdef|].
    destruct t as [n|s|o| | |]; try exact Hdef.
    intros H. apply pbind_ok in H. destruct H as (b & r1 & H1 & H).
    apply He in H1. destruct H1 as (pre1 & E1 & D1).
    apply Ha in H. destruct H as (pre2 & E2 & D2).
    exists (TComma :: pre1 ++ pre2). split.
    - simpl. rewrite E1, E2, <- app_assoc. reflexivity.
    - econstructor; eassumption.
  Qed.

  Lemma sound_next : sound_level (next_level p).
  Proof.
    repeat split; simpl.
    - apply expr_sound.
    - apply term_sound.
    - apply unary_sound.
    - apply args_loop_sound.
    - apply term_loop_sound.
    - apply expr_loop_sound.
  Qed.
End SoundStep.

Lemma sound_all n : sound_level (parsers_at n).
Proof. induction n; simpl; [apply sound_level0|apply sound_next; assumption]. Qed.

Lemma parse_fuel_sound n ts e r : parse_fuel n ts = POk e r -> d_expr ts e.
Proof.
  unfold parse_fuel. destruct (P_expr (parsers_at n) ts) as [e' r'| |] eqn:E; try discriminate.
  destruct r'; [|discriminate]. intros H. inversion H; subst.
  destruct (sound_all n) as (He & _). apply He in E. destruct E as (pre & E & D).
  rewrite app_nil_r in E. subst. exact D.
Qed.

Theorem parser_sound ts e : parse_tokens ts = Some e -> derives_ref ts e.
Proof.
  unfold parse_tokens. destruct (parse_fuel (S (length ts)) ts) eqn:E; try discriminate.
  intros H. inversion H; subst. eapply parse_fuel_sound. exact E.
Qed.

(* ------------------------------------------------------------------ follow sets *)
Definition fp (r : list token) : bool := match r with TLP :: _ => false | _ => true end.
Definition fw (r : list token) : bool := match r with TLP :: _ | TOp OPow :: _ => false | _ => true end.
Definition ft (r : list token) : bool :=
  match r with
  | TLP :: _ => false
  | TOp o :: _ => match o with OPow | OStar | OSlash | ODSlash | OPct => false | _ => true end
  | _ => true
  end.
Definition fe (r : list token) : bool :=
  match r with TLP :: _ | TOp _ :: _ => false | _ => true end.
Definition fa (r : list token) : bool :=
  match r with TLP :: _ | TOp _ :: _ | TComma :: _ => false | _ => true end.

Lemma fe_ft r : fe r = true -> ft r = true.
Proof. destruct r as [|[]]; simpl; try reflexivity; try discriminate. Qed.
Lemma ft_fw r : ft r = true -> fw r = true.
Proof. destruct r as [|[? | ? | [] | | |]]; simpl; try reflexivity; try discriminate. Qed.
Lemma fw_fp r : fw r = true -> fp r = true.
Proof. destruct r as [|[]]; simpl; try reflexivity; try discriminate. Qed.
Lemma fa_fe r : fa r = true -> fe r = true.
Proof. destruct r as [|[]]; simpl; try reflexivity; try discriminate. Qed.

Lemma expr_tail_follow a ts e r : d_expr_tail a ts e -> fe r = true -> ft (ts ++ r) = true.
Proof.
  intros D Hr. destruct D as [|a o mk ts1 ts2 b e Hm _ _]; simpl; [apply fe_ft; exact Hr|].
  destruct o; simpl in Hm; try discriminate; reflexivity.
Qed.
Lemma term_tail_follow a ts e r : d_term_tail a ts e -> ft r = true -> fw (ts ++ r) = true.
Proof.
  intros D Hr. destruct D as [|a o mk ts1 ts2 b e Hm _ _]; simpl; [apply ft_fw; exact Hr|].
  destruct o; simpl in Hm; try discriminate; reflexivity.
Qed.
Lemma args_tail_follow acc ts args r : d_args_tail acc ts args -> fa r = true -> fe (ts ++ r) = true.
Proof.
  intros D Hr. destruct D; simpl; [apply fa_fe; exact Hr|reflexivity].
Qed.

(* ------------------------------------------------------------------ completeness *)
Lemma le_S_level m (k : nat) : (S k <= m)%nat -> exists m', m = S m' /\ (k <= m')%nat.
Proof. intros H. destruct m; [lia|]. exists m. split; [reflexivity|lia]. Qed.

Lemma len_app_cons {A} (a : list A) x b : length (a ++ x :: b) = S (length (a ++ b)).
Proof. rewrite !app_length. simpl. lia. Qed.

Definition C_expr ts e := forall r m, fe r = true -> (length (ts ++ r) <= m)%nat ->
  expr_of (parsers_at m) (ts ++ r) = POk e r.
Definition C_expr_tail a ts e := forall r m, fe r = true -> (length (ts ++ r) <= m)%nat ->
  expr_loop_of (parsers_at m) a (ts ++ r) = POk e r.
Definition C_term ts e := forall r m, ft r = true -> (length (ts ++ r) <= m)%nat ->
  term_of (parsers_at m) (ts ++ r) = POk e r.
Definition C_term_tail a ts e := forall r m, ft r = true -> (length (ts ++ r) <= m)%nat ->
  term_loop_of (parsers_at m) a (ts ++ r) = POk e r.
Definition C_unary ts e := forall r m, fw r = true -> (length (ts ++ r) <= m)%nat ->
  unary_of (parsers_at m) (ts ++ r) = POk e r.
Definition C_power ts e := forall r m, fw r = true -> (length (ts ++ r) <= m)%nat ->
  power_of (parsers_at m) (ts ++ r) = POk e r.
Definition C_primary ts e := forall r m, fp r = true -> (length (ts ++ r) <= m)%nat ->
  primary_of (parsers_at m) (ts ++ r) = POk e r.
Definition C_args_tail acc ts args := forall r m, fa r = true -> (length (ts ++ r) <= m)%nat ->
  args_loop_of (parsers_at m) acc (ts ++ r) = POk args r.

Lemma loop_stop_term p a r : ft r = true -> term_loop_of p a r = POk a r.
Proof.
  unfold term_loop_of. destruct r as [|[n|s|o| | |] r']; simpl; try reflexivity; try discriminate.
  destruct o; simpl; try reflexivity; discriminate.
Qed.
Lemma loop_stop_expr p a r : fe r = true -> expr_loop_of p a r = POk a r.
Proof.
  unfold expr_loop_of. destruct r as [|[n|s|o| | |] r']; simpl; try reflexivity; discriminate.
Qed.
Lemma loop_stop_args p acc r : fa r = true -> args_loop_of p acc r = POk acc r.
Proof.
  unfold args_loop_of. destruct r as [|[n|s|o| | |] r']; simpl; try reflexivity; discriminate.
Qed.

Lemma complete_all :
  (forall ts e, d_expr ts e -> C_expr ts e) /\
  (forall a ts e, d_expr_tail a ts e -> C_expr_tail a ts e) /\
  (forall ts e, d_term ts e -> C_term ts e) /\
  (forall a ts e, d_term_tail a ts e -> C_term_tail a ts e) /\
  (forall ts e, d_unary ts e -> C_unary ts e) /\
  (forall ts e, d_power ts e -> C_power ts e) /\
  (forall ts e, d_primary ts e -> C_primary ts e) /\
  (forall acc ts args, d_args_tail acc ts args -> C_args_tail acc ts args).
Proof.
  apply d_mutind.
  - (* DE *) intros ts1 ts2 a e D1 IH1 D2 IH2 r m Hr Hm.
    unfold expr_of. rewrite <- app_assoc.
    rewrite (IH1 (ts2 ++ r) m); [| eapply expr_tail_follow; eassumption | rewrite app_assoc; exact Hm].
    simpl. apply IH2; [exact Hr|]. rewrite <- app_assoc, app_length in Hm. lia.
  - (* DEnil *) intros a r m Hr _. simpl. apply loop_stop_expr. exact Hr.
  - (* DEcons *) intros a o mk ts1 ts2 b e Hm D1 IH1 D2 IH2 r m Hr Hlen.
    simpl in Hlen. apply le_S_level in Hlen. destruct Hlen as (m' & -> & Hlen).
    simpl. rewrite Hm. change (P_term (parsers_at (S m'))) with (term_of (parsers_at m')).
    rewrite <- app_assoc.
    rewrite (IH1 (ts2 ++ r) m'); [| eapply expr_tail_follow; eassumption | rewrite app_assoc; exact Hlen].
    simpl. change (P_expr_loop (parsers_at (S m'))) with (expr_loop_of (parsers_at m')).
    apply IH2; [exact Hr|]. rewrite <- app_assoc, app_length in Hlen. lia.
  - (* DT *) intros ts1 ts2 a e D1 IH1 D2 IH2 r m Hr Hm.
    unfold term_of. rewrite <- app_assoc.
    rewrite (IH1 (ts2 ++ r) m); [| eapply term_tail_follow; eassumption | rewrite app_assoc; exact Hm].
    simpl. apply IH2; [exact Hr|]. rewrite <- app_assoc, app_length in Hm. lia.
  - (* DTnil *) intros a r m Hr _. simpl. apply loop_stop_term. exact Hr.
  - (* DTcons *) intros a o mk ts1 ts2 b e Hm D1 IH1 D2 IH2 r m Hr Hlen.
    simpl in Hlen. apply le_S_level in Hlen. destruct Hlen as (m' & -> & Hlen).
    simpl. rewrite Hm. change (P_unary (parsers_at (S m'))) with (unary_of (parsers_at m')).
    rewrite <- app_assoc.
    rewrite (IH1 (ts2 ++ r) m'); [| eapply term_tail_follow; eassumption | rewrite app_assoc; exact Hlen].
    simpl. change (P_term_loop (parsers_at (S m'))) with (term_loop_of (parsers_at m')).
    apply IH2; [exact Hr|]. rewrite <- app_assoc, app_length in Hlen. lia.
  - (* DUneg *) intros ts e D IH r m Hr Hlen.
    simpl in Hlen. apply le_S_level in Hlen. destruct Hlen as (m' & -> & Hlen).
    simpl. change (P_unary (parsers_at (S m'))) with (unary_of (parsers_at m')).
    rewrite (IH r m' Hr Hlen). reflexivity.
  - (* DUpow *) intros ts e D IH r m Hr Hlen.
    pose proof (IH r m Hr Hlen) as H.
    assert (S : starts_ok ts) by (eapply start_power; exact D).
    unfold unary_of. destruct ts as [|t ts']; [destruct S|].
    simpl app. destruct t as [n|s|o| | |]; try exact H.
    destruct o; try exact H.
    (* a power never starts with '-' *)
    exfalso. clear -D. inversion D as [? ? D1|? ? ? ? D1 ? E]; subst.
    + inversion D1.
    + destruct ts1; simpl in E; [discriminate|]. inversion E; subst. inversion D1.
  - (* DPprim *) intros ts e D IH r m Hr Hlen.
    unfold power_of. rewrite (IH r m (fw_fp _ Hr) Hlen). simpl.
    destruct r as [|[n|s|o| | |] r']; try reflexivity. destruct o; try reflexivity. discriminate.
  - (* DPpow *) intros ts1 ts2 b e D1 IH1 D2 IH2 r m Hr Hlen.
    unfold power_of. rewrite <- app_assoc. simpl app.
    rewrite <- app_assoc in Hlen. simpl app in Hlen.
    rewrite (IH1 (TOp OPow :: ts2 ++ r) m); [| reflexivity | exact Hlen].
    simpl. rewrite len_app_cons in Hlen.
    apply le_S_level in Hlen. destruct Hlen as (m' & -> & Hlen).
    change (P_unary (parsers_at (S m'))) with (unary_of (parsers_at m')).
    rewrite (IH2 r m' Hr); [reflexivity|]. rewrite app_length in Hlen. lia.
  - (* DPnum *) intros n r m _ _. reflexivity.
  - (* DPid *) intros s r m Hr _. simpl. destruct r as [|[] r']; try reflexivity. discriminate.
  - (* DPparen *) intros ts e D IH r m Hr Hlen.
    simpl in Hlen. apply le_S_level in Hlen. destruct Hlen as (m' & -> & Hlen).
    simpl. rewrite <- app_assoc. simpl app.
    change (P_expr (parsers_at (S m'))) with (expr_of (parsers_at m')).
    rewrite (IH (TRP :: r) m'); [reflexivity|reflexivity|].
    rewrite <- app_assoc in Hlen. exact Hlen.
  - (* DPcall0 *) intros s k e Hk Hap r m Hr Hlen.
    simpl. rewrite Hk, Hap. reflexivity.
  - (* DPcall *) intros s k ts1 ts2 e1 args e Hk D1 IH1 D2 IH2 Hap r m Hr Hlen.
    simpl in Hlen. apply le_S_level in Hlen. destruct Hlen as (m' & -> & Hlen).
    simpl in Hlen. apply le_S_level in Hlen. destruct Hlen as (m'' & -> & Hlen).
    assert (S1 : starts_ok ts1) by (eapply start_expr; exact D1).
    cbn [app primary_of]. rewrite Hk.
    rewrite <- !app_assoc. rewrite <- !app_assoc in Hlen. simpl app in *.
    change (P_expr (parsers_at (S (S m'')))) with (expr_of (parsers_at (S m''))).
    change (P_args_loop (parsers_at (S (S m'')))) with (args_loop_of (parsers_at (S m''))).
    assert (E1 : expr_of (parsers_at (S m'')) (ts1 ++ ts2 ++ TRP :: r) = POk e1 (ts2 ++ TRP :: r)).
    { apply IH1; [eapply args_tail_follow; [exact D2|reflexivity]|]. lia. }
    assert (E2 : args_loop_of (parsers_at (S m'')) [e1] (ts2 ++ TRP :: r) = POk args (TRP :: r)).
    { apply IH2; [reflexivity|]. rewrite app_length in Hlen. lia. }
    destruct ts1 as [|t1 ts1']; [destruct S1|].
    destruct t1; try (destruct S1; fail); simpl app in *;
      rewrite E1; cbn [pbind]; rewrite E2; cbn [pbind]; rewrite Hap; reflexivity.
  - (* DAnil *) intros acc r m Hr _. simpl. apply loop_stop_args. exact Hr.
  - (* DAcons *) intros acc ts1 ts2 e args D1 IH1 D2 IH2 r m Hr Hlen.
    simpl in Hlen. apply le_S_level in Hlen. destruct Hlen as (m' & -> & Hlen).
    simpl. change (P_expr (parsers_at (S m'))) with (expr_of (parsers_at m')).
    rewrite <- app_assoc.
    rewrite (IH1 (ts2 ++ r) m'); [| eapply args_tail_follow; eassumption | rewrite app_assoc; exact Hlen].
    simpl. change (P_args_loop (parsers_at (S m'))) with (args_loop_of (parsers_at m')).
    apply IH2; [exact Hr|]. rewrite <- app_assoc, app_length in Hlen. lia.
Qed.

Theorem parser_complete ts e : derives_ref ts e -> parse_tokens ts = Some e.
Proof.
  intros D. unfold parse_tokens, parse_fuel.
  change (P_expr (parsers_at (S (length ts)))) with (expr_of (parsers_at (length ts))).
  destruct complete_all as (He & _).
  pose proof (He ts e D [] (length ts) eq_refl) as H. rewrite app_nil_r in H.
  rewrite H by lia. reflexivity.
Qed.

Theorem parser_sound_complete ts e : parse_tokens ts = Some e <-> derives_ref ts e.
Proof. split; [apply parser_sound|apply parser_complete]. Qed.

(* the reference grammar is unambiguous: a token list has at most one tree *)
Corollary derives_ref_deterministic ts e1 e2 : derives_ref ts e1 -> derives_ref ts e2 -> e1 = e2.
Proof. intros H1 H2. apply parser_complete in H1, H2. congruence. Qed.

(* C16/Model.v — executable model of symbolic dimension expressions (onnx_ir/_symbolic_shapes.py and the
   SymbolicDim operators of onnx_ir/_core.py).  Definitions only.

   expr            the trees ir-py asks SymPy to build (constructor for constructor: `a // b` is
                   floor(a / b), `a % b` is Mod(a, b), trunc is sign(x) * floor(Abs(x)), …)
   eval            exact rational semantics (option Q; None = outside the evaluated fragment: division
                   by zero, non-integer exponent, sqrt of a non-square)
   subst           partial binding
   lex             _ExpressionTokenizer.get_token as a character state machine (ASCII classes)
   parsers_at      _ExpressionParser: one level of the recursive-descent parser per unit of fuel; the
                   functions of level n+1 call level n only after consuming a token, so fuel
                   `length ts + 1` always suffices (Proofs: no_fuel)
   prt / render    model printer: fully parenthesised text using the function names SymPy prints
   The function table is Gen/C16Gen.allowed_functions, regenerated from the source on every run. *)
From Coq Require Import ZArith NArith List Bool QArith Qround Qabs Qreduction.
From IRV Require Import Base.Exn Gen.C16Gen.
Import ListNotations.

Definition name := list N.
Definition name_eqb (a b : name) : bool := list_eqb N.eqb a b.

(* ------------------------------------------------------------------ expressions *)
Inductive fn1 := FFloor | FCeil | FAbs | FSign | FSqrt.
Inductive bop := BAdd | BSub | BMul | BDiv | BMod | BPow | BMax | BMin.
Inductive expr :=
| ESym (x : name)
| EInt (z : Z)
| ENeg (e : expr)
| EUn (f : fn1) (e : expr)
| EBin (o : bop) (a b : expr).

(* derived forms, exactly as the Python code composes SymPy constructors *)
Definition EFloorDiv (a b : expr) : expr := EUn FFloor (EBin BDiv a b).          (* floor(a / b) *)
Definition ETrunc (e : expr) : expr := EBin BMul (EUn FSign e) (EUn FFloor (EUn FAbs e)). (* __trunc__ *)

Definition fn1_eqb (a b : fn1) : bool :=
  match a, b with
  | FFloor, FFloor | FCeil, FCeil | FAbs, FAbs | FSign, FSign | FSqrt, FSqrt => true
  | _, _ => false
  end.
Definition bop_eqb (a b : bop) : bool :=
  match a, b with
  | BAdd, BAdd | BSub, BSub | BMul, BMul | BDiv, BDiv | BMod, BMod | BPow, BPow | BMax, BMax | BMin, BMin => true
  | _, _ => false
  end.
Fixpoint expr_eqb (a b : expr) : bool :=
  match a, b with
  | ESym x, ESym y => name_eqb x y
  | EInt x, EInt y => Z.eqb x y
  | ENeg x, ENeg y => expr_eqb x y
  | EUn f x, EUn g y => fn1_eqb f g && expr_eqb x y
  | EBin o x1 x2, EBin p y1 y2 => bop_eqb o p && expr_eqb x1 y1 && expr_eqb x2 y2
  | _, _ => false
  end.

(* ------------------------------------------------------------------ exact evaluation *)
Definition env := list (name * Z).
Fixpoint lookup (s : env) (x : name) : option Z :=
  match s with
  | [] => None
  | (y, v) :: r => if name_eqb x y then Some v else lookup r x
  end.

(* the integer a rational is, if it is one *)
Definition qint (q : Q) : option Z :=
  let r := Qred q in if (Qden r =? 1)%positive then Some (Qnum r) else None.
Definition qzero (q : Q) : bool := (Qnum q =? 0)%Z.

Definition eval_un (f : fn1) (q : Q) : option Q :=
  match f with
  | FFloor => Some (inject_Z (Qfloor q))
  | FCeil => Some (inject_Z (Qceiling q))
  | FAbs => Some (Qabs q)
  | FSign => Some (inject_Z (Z.sgn (Qnum q)))
  | FSqrt =>
      match qint q with
      | Some z => if (0 <=? z)%Z && (Z.sqrt z * Z.sqrt z =? z)%Z then Some (inject_Z (Z.sqrt z)) else None
      | None => None
      end
  end.

Definition eval_bin (o : bop) (a b : Q) : option Q :=
  match o with
  | BAdd => Some (Qred (a + b))
  | BSub => Some (Qred (a - b))
  | BMul => Some (Qred (a * b))
  | BDiv => if qzero b then None else Some (Qred (a / b))
  | BMod => if qzero b then None else Some (Qred (a - b * inject_Z (Qfloor (a / b))))
  | BPow =>
      match qint b with
      | Some z => if qzero a && (z <? 0)%Z then None else Some (Qred (Qpower a z))
      | None => None
      end
  | BMax => Some (if Qle_bool a b then b else a)
  | BMin => Some (if Qle_bool a b then a else b)
  end.

Fixpoint eval (s : env) (e : expr) : option Q :=
  match e with
  | ESym x => match lookup s x with Some v => Some (inject_Z v) | None => None end
  | EInt z => Some (inject_Z z)
  | ENeg a => match eval s a with Some q => Some (Qopp q) | None => None end
  | EUn f a => match eval s a with Some q => eval_un f q | None => None end
  | EBin o a b =>
      match eval s a, eval s b with
      | Some x, Some y => eval_bin o x y
      | _, _ => None
      end
  end.

(* partial binding: bound symbols become integer literals, the rest stays *)
Fixpoint subst (s : env) (e : expr) : expr :=
  match e with
  | ESym x => match lookup s x with Some v => EInt v | None => ESym x end
  | EInt z => EInt z
  | ENeg a => ENeg (subst s a)
  | EUn f a => EUn f (subst s a)
  | EBin o a b => EBin o (subst s a) (subst s b)
  end.

Fixpoint free_syms (e : expr) : list name :=
  match e with
  | ESym x => [x]
  | EInt _ => []
  | ENeg a | EUn _ a => free_syms a
  | EBin _ a b => free_syms a ++ free_syms b
  end.

(* value of evaluate(): an int when the exact value is an integer, otherwise a residual dimension *)
Definition eval_int (s : env) (e : expr) : option Z :=
  match eval s e with Some q => qint q | None => None end.

(* ------------------------------------------------------------------ tokens and the tokenizer *)
Inductive op := OPlus | OMinus | OStar | OSlash | ODSlash | OPct | OPow.
Inductive token := TNum (n : N) | TId (s : name) | TOp (o : op) | TLP | TRP | TComma.

Definition op_eqb (a b : op) : bool :=
  match a, b with
  | OPlus, OPlus | OMinus, OMinus | OStar, OStar | OSlash, OSlash | ODSlash, ODSlash | OPct, OPct | OPow, OPow => true
  | _, _ => false
  end.
Definition token_eqb (a b : token) : bool :=
  match a, b with
  | TNum x, TNum y => N.eqb x y
  | TId x, TId y => name_eqb x y
  | TOp x, TOp y => op_eqb x y
  | TLP, TLP | TRP, TRP | TComma, TComma => true
  | _, _ => false
  end.

(* str.isdigit / isalpha / isspace restricted to ASCII (non-ASCII characters: outside the model) *)
Definition is_digit (c : N) : bool := (48 <=? c)%N && (c <=? 57)%N.
Definition is_alpha (c : N) : bool := ((65 <=? c)%N && (c <=? 90)%N) || ((97 <=? c)%N && (c <=? 122)%N).
Definition is_space (c : N) : bool := ((9 <=? c)%N && (c <=? 13)%N) || ((28 <=? c)%N && (c <=? 32)%N).
Definition is_idstart (c : N) : bool := is_alpha c || (c =? 95)%N.
Definition is_idchar (c : N) : bool := is_alpha c || is_digit c || (c =? 95)%N || (c =? 46)%N.

Inductive lstate := LNone | LNum (v : N) | LId (racc : list N) | LStar | LSlash.

Definition flush (st : lstate) : list token :=
  match st with
  | LNone => []
  | LNum v => [TNum v]
  | LId r => [TId (rev r)]
  | LStar => [TOp OStar]
  | LSlash => [TOp OSlash]
  end.

(* first character of a token (get_token after _skip_whitespace) *)
Definition start (c : N) : option (list token * lstate) :=
  if is_space c then Some ([], LNone)
  else if is_digit c then Some ([], LNum (c - 48))
  else if is_idstart c then Some ([], LId [c])
  else if (c =? 42)%N then Some ([], LStar)
  else if (c =? 47)%N then Some ([], LSlash)
  else if (c =? 43)%N then Some ([TOp OPlus], LNone)
  else if (c =? 45)%N then Some ([TOp OMinus], LNone)
  else if (c =? 37)%N then Some ([TOp OPct], LNone)
  else if (c =? 40)%N then Some ([TLP], LNone)
  else if (c =? 41)%N then Some ([TRP], LNone)
  else if (c =? 44)%N then Some ([TComma], LNone)
  else None.

Definition emit (pre : list token) (r : option (list token * lstate)) : option (list token * lstate) :=
  match r with Some (out, st) => Some (pre ++ out, st) | None => None end.

Definition step (st : lstate) (c : N) : option (list token * lstate) :=
  match st with
  | LNone => start c
  | LNum v => if is_digit c then Some ([], LNum (10 * v + (c - 48))) else emit [TNum v] (start c)
  | LId r => if is_idchar c then Some ([], LId (c :: r)) else emit [TId (rev r)] (start c)
  | LStar => if (c =? 42)%N then Some ([TOp OPow], LNone) else emit [TOp OStar] (start c)
  | LSlash => if (c =? 47)%N then Some ([TOp ODSlash], LNone) else emit [TOp OSlash] (start c)
  end.

Fixpoint lex_from (st : lstate) (s : list N) : option (list token) :=
  match s with
  | [] => Some (flush st)
  | c :: r =>
      match step st c with
      | None => None
      | Some (out, st') => match lex_from st' r with Some ts => Some (out ++ ts) | None => None end
      end
  end.
Definition lex (s : list N) : option (list token) := lex_from LNone s.

(* ------------------------------------------------------------------ the function table *)
Inductive fnk := K1 (f : fn1) | KMod | KMax | KMin.

Fixpoint assoc (x : name) (l : list (name * name)) : option name :=
  match l with
  | [] => None
  | (k, v) :: r => if name_eqb x k then Some v else assoc x r
  end.

Definition n_Max : name := [77; 97; 120]%N.
Definition n_Min : name := [77; 105; 110]%N.
Definition n_floor : name := [102; 108; 111; 111; 114]%N.
Definition n_ceiling : name := [99; 101; 105; 108; 105; 110; 103]%N.
Definition n_Abs : name := [65; 98; 115]%N.
Definition n_sign : name := [115; 105; 103; 110]%N.
Definition n_sqrt : name := [115; 113; 114; 116]%N.
Definition n_Mod : name := [77; 111; 100]%N.

(* the SymPy callable a table value denotes *)
Definition sympy_fn (attr : name) : option fnk :=
  if name_eqb attr n_Max then Some KMax
  else if name_eqb attr n_Min then Some KMin
  else if name_eqb attr n_floor then Some (K1 FFloor)
  else if name_eqb attr n_ceiling then Some (K1 FCeil)
  else if name_eqb attr n_Abs then Some (K1 FAbs)
  else if name_eqb attr n_sign then Some (K1 FSign)
  else if name_eqb attr n_sqrt then Some (K1 FSqrt)
  else if name_eqb attr n_Mod then Some KMod
  else None.

(* `name in _ALLOWED_FUNCTIONS` and the callable *)
Definition lookup_fn (s : name) : option fnk :=
  match assoc s allowed_functions with
  | Some attr => sympy_fn attr
  | None => None
  end.

Fixpoint fold_args (o : bop) (a : expr) (r : list expr) : expr :=
  match r with
  | [] => a
  | b :: r' => EBin o a (fold_args o b r')
  end.

(* func( *args ): arity errors are SymPy's TypeError; Max/Min of several arguments are nested binary
   nodes (right-nested); Max()/Min() without arguments (SymPy: -oo/oo) are rejected by the model *)
Definition apply_fn (k : fnk) (args : list expr) : option expr :=
  match k, args with
  | K1 f, [a] => Some (EUn f a)
  | KMod, [a; b] => Some (EBin BMod a b)
  | KMax, a :: r => Some (fold_args BMax a r)
  | KMin, a :: r => Some (fold_args BMin a r)
  | _, _ => None
  end.

(* ------------------------------------------------------------------ the parser *)
Inductive pres (A : Type) := POk (a : A) (rest : list token) | PErr | PFuel.
Arguments POk {A} a rest.
Arguments PErr {A}.
Arguments PFuel {A}.

Definition pbind {A B} (r : pres A) (f : A -> list token -> pres B) : pres B :=
  match r with POk a rest => f a rest | PErr => PErr | PFuel => PFuel end.

Record parsers := {
  P_expr : list token -> pres expr;
  P_term : list token -> pres expr;
  P_unary : list token -> pres expr;
  P_args_loop : list expr -> list token -> pres (list expr);
  P_term_loop : expr -> list token -> pres expr;
  P_expr_loop : expr -> list token -> pres expr }.

(* binary operator of a `term` loop iteration / of an `expr` loop iteration *)
Definition mulop (o : op) : option (expr -> expr -> expr) :=
  match o with
  | OStar => Some (EBin BMul)
  | OSlash => Some (EBin BDiv)
  | ODSlash => Some EFloorDiv
  | OPct => Some (EBin BMod)
  | _ => None
  end.
Definition addop (o : op) : option (expr -> expr -> expr) :=
  match o with
  | OPlus => Some (EBin BAdd)
  | OMinus => Some (EBin BSub)
  | _ => None
  end.

Section Level.
  Variable p : parsers.   (* the previous level: used only after a token has been consumed *)

  (* _parse_primary (+ _parse_function_call) *)
  Definition primary_of (ts : list token) : pres expr :=
    match ts with
    | TNum n :: r => POk (EInt (Z.of_N n)) r
    | TId s :: TLP :: r =>
        match lookup_fn s with
        | None => PErr                                   (* Unknown function *)
        | Some k =>
            let close (args : list expr) (r2 : list token) :=
              match r2 with
              | TRP :: r3 => match apply_fn k args with Some e => POk e r3 | None => PErr end
              | _ => PErr
              end in
            match r with
            | TRP :: _ => close [] r
            | _ => pbind (P_expr p r) (fun e r1 => pbind (P_args_loop p [e] r1) close)
            end
        end
    | TId s :: r => POk (ESym s) r
    | TLP :: r => pbind (P_expr p r) (fun e r1 => match r1 with TRP :: r2 => POk e r2 | _ => PErr end)
    | _ => PErr
    end.

  (* _parse_power *)
  Definition power_of (ts : list token) : pres expr :=
    pbind (primary_of ts) (fun b r =>
      match r with
      | TOp OPow :: r1 => pbind (P_unary p r1) (fun e r2 => POk (EBin BPow b e) r2)
      | _ => POk b r
      end).

  (* _parse_unary *)
  Definition unary_of (ts : list token) : pres expr :=
    match ts with
    | TOp OMinus :: r => pbind (P_unary p r) (fun e r1 => POk (ENeg e) r1)
    | _ => power_of ts
    end.

  (* the while loop of _parse_term, entered with `left` *)
  Definition term_loop_of (left : expr) (ts : list token) : pres expr :=
    match ts with
    | TOp o :: r =>
        match mulop o with
        | Some mk => pbind (P_unary p r) (fun right r1 => P_term_loop p (mk left right) r1)
        | None => POk left ts
        end
    | _ => POk left ts
    end.
  Definition term_of (ts : list token) : pres expr := pbind (unary_of ts) term_loop_of.

  (* the while loop of _parse_expr *)
  Definition expr_loop_of (left : expr) (ts : list token) : pres expr :=
    match ts with
    | TOp o :: r =>
        match addop o with
        | Some mk => pbind (P_term p r) (fun right r1 => P_expr_loop p (mk left right) r1)
        | None => POk left ts
        end
    | _ => POk left ts
    end.
  Definition expr_of (ts : list token) : pres expr := pbind (term_of ts) expr_loop_of.

  (* the `while COMMA` loop of _parse_function_call *)
  Definition args_loop_of (acc : list expr) (ts : list token) : pres (list expr) :=
    match ts with
    | TComma :: r => pbind (P_expr p r) (fun e r1 => P_args_loop p (acc ++ [e]) r1)
    | _ => POk acc ts
    end.

  Definition next_level : parsers :=
    {| P_expr := expr_of; P_term := term_of; P_unary := unary_of;
       P_args_loop := args_loop_of; P_term_loop := term_loop_of; P_expr_loop := expr_loop_of |}.
End Level.

Definition level0 : parsers :=
  {| P_expr := fun _ => PFuel; P_term := fun _ => PFuel; P_unary := fun _ => PFuel;
     P_args_loop := fun _ _ => PFuel; P_term_loop := fun _ _ => PFuel; P_expr_loop := fun _ _ => PFuel |}.

Fixpoint parsers_at (n : nat) : parsers :=
  match n with
  | O => level0
  | S m => next_level (parsers_at m)
  end.

(* _ExpressionParser.parse: the whole token list must be consumed *)
Definition parse_fuel (n : nat) (ts : list token) : pres expr :=
  match P_expr (parsers_at n) ts with
  | POk e [] => POk e []
  | POk _ _ => PErr
  | PErr => PErr
  | PFuel => PFuel
  end.
Definition parse_tokens (ts : list token) : option expr :=
  match parse_fuel (S (length ts)) ts with POk e _ => Some e | _ => None end.

(* parse_symbolic_expression (the str.isidentifier() fast path is the one-token case) *)
Definition parse_dim (s : list N) : option expr :=
  match lex s with Some ts => parse_tokens ts | None => None end.

(* ------------------------------------------------------------------ the model printer *)
Definition fn1_name (f : fn1) : name :=
  match f with FFloor => n_floor | FCeil => n_ceiling | FAbs => n_Abs | FSign => n_sign | FSqrt => n_sqrt end.

Definition infix_of (o : bop) : option op :=
  match o with
  | BAdd => Some OPlus | BSub => Some OMinus | BMul => Some OStar | BDiv => Some OSlash | BPow => Some OPow
  | BMod | BMax | BMin => None
  end.
Definition call_name (o : bop) : name :=
  match o with BMod => n_Mod | BMax => n_Max | _ => n_Min end.

Fixpoint prt (e : expr) : list token :=
  match e with
  | ESym x => [TId x]
  | EInt z => if (z <? 0)%Z then [TLP; TOp OMinus; TNum (Z.to_N (- z)); TRP] else [TNum (Z.to_N z)]
  | ENeg a => [TLP; TOp OMinus] ++ prt a ++ [TRP]
  | EUn f a => [TId (fn1_name f); TLP] ++ prt a ++ [TRP]
  | EBin o a b =>
      match infix_of o with
      | Some i => [TLP] ++ prt a ++ [TOp i] ++ prt b ++ [TRP]
      | None => [TId (call_name o); TLP] ++ prt a ++ [TComma] ++ prt b ++ [TRP]
      end
  end.

(* what the parser rebuilds from prt e: a negative literal comes back as a negation *)
Fixpoint norm (e : expr) : expr :=
  match e with
  | ESym x => ESym x
  | EInt z => if (z <? 0)%Z then ENeg (EInt (- z)) else EInt z
  | ENeg a => ENeg (norm a)
  | EUn f a => EUn f (norm a)
  | EBin o a b => EBin o (norm a) (norm b)
  end.

(* decimal digits of a natural number, most significant first *)
Fixpoint digits_fuel (fuel : nat) (n : N) (acc : list N) : list N :=
  match fuel with
  | O => acc
  | S f =>
      let acc' := (48 + n mod 10)%N :: acc in
      if (n / 10 =? 0)%N then acc' else digits_fuel f (n / 10)%N acc'
  end.
Definition digits (n : N) : list N := digits_fuel (S (N.to_nat (N.log2 n))) n [].

Definition op_chars (o : op) : list N :=
  match o with
  | OPlus => [43] | OMinus => [45] | OStar => [42] | OSlash => [47] | ODSlash => [47; 47] | OPct => [37] | OPow => [42; 42]
  end%N.
Definition render_tok (t : token) : list N :=
  match t with
  | TNum n => digits n
  | TId s => s
  | TOp o => op_chars o
  | TLP => [40%N] | TRP => [41%N] | TComma => [44%N]
  end.
Fixpoint render (ts : list token) : list N :=
  match ts with
  | [] => []
  | t :: r => render_tok t ++ 32%N :: render r
  end.
Definition pr (e : expr) : list N := render (prt e).

(* identifiers the tokenizer reads back as one IDENT token *)
Definition valid_ident (s : name) : bool :=
  match s with
  | c :: r => is_idstart c && forallb is_idchar r
  | [] => false
  end.
Fixpoint idents_ok (e : expr) : bool :=
  match e with
  | ESym x => valid_ident x
  | EInt _ => true
  | ENeg a | EUn _ a => idents_ok a
  | EBin _ a b => idents_ok a && idents_ok b
  end.

(* ------------------------------------------------------------------ the minimal-parenthesis printer *)
(* Precedence level of a tree's outermost form: 0 = expr (+ -), 1 = term (mul, div, floordiv), 2 = unary (-x, negative
   literal), 3 = power, 4 = primary (names, numbers, calls).  floor(a / b) is written a // b. *)
Definition lvl_of (e : expr) : nat :=
  match e with
  | ESym _ => 4
  | EInt z => if (z <? 0)%Z then 2 else 4
  | ENeg _ => 2
  | EUn FFloor (EBin BDiv _ _) => 1
  | EUn _ _ => 4
  | EBin o _ _ => match o with BAdd | BSub => 0 | BMul | BDiv => 1 | BPow => 3 | BMod | BMax | BMin => 4 end
  end%nat.

(* pm l e : tokens of e in a context that needs level >= l; parentheses only where the grammar needs them:
   left operands at the operator's own level (left associativity), right operands one level up, the base of **
   at primary level and its exponent at unary level (right associativity, signed exponents). *)
Fixpoint pm (l : nat) (e : expr) {struct e} : list token :=
  let body :=
    match e with
    | ESym x => [TId x]
    | EInt z => if (z <? 0)%Z then [TOp OMinus; TNum (Z.to_N (- z))] else [TNum (Z.to_N z)]
    | ENeg a => TOp OMinus :: pm 2 a
    | EUn FFloor (EBin BDiv a b) => pm 1 a ++ TOp ODSlash :: pm 2 b
    | EUn f a => TId (fn1_name f) :: TLP :: pm 0 a ++ [TRP]
    | EBin o a b =>
        match o with
        | BAdd => pm 0 a ++ TOp OPlus :: pm 1 b
        | BSub => pm 0 a ++ TOp OMinus :: pm 1 b
        | BMul => pm 1 a ++ TOp OStar :: pm 2 b
        | BDiv => pm 1 a ++ TOp OSlash :: pm 2 b
        | BPow => pm 4 a ++ TOp OPow :: pm 2 b
        | BMod | BMax | BMin => TId (call_name o) :: TLP :: pm 0 a ++ TComma :: pm 0 b ++ [TRP]
        end
    end in
  if (lvl_of e <? l)%nat then TLP :: body ++ [TRP] else body.

Definition prmin (e : expr) : list N := render (pm 0 e).

Fixpoint nonneg_lits (e : expr) : bool :=
  match e with
  | ESym _ => true
  | EInt z => (0 <=? z)%Z
  | ENeg a | EUn _ a => nonneg_lits a
  | EBin _ a b => nonneg_lits a && nonneg_lits b
  end.

Fixpoint esize (e : expr) : nat :=
  match e with
  | ESym _ | EInt _ => 1
  | ENeg a | EUn _ a => S (esize a)
  | EBin _ a b => S (esize a + esize b)
  end.

(* ------------------------------------------------------------------ helpers for the case files *)
Definition oexpr_eqb := option_eqb expr_eqb.
Definition oq_eqb (a b : option Q) : bool := option_eqb Qeq_bool a b.

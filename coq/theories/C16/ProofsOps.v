(* C16/ProofsOps.v — the operator methods of SymbolicDim, as translated from the source into Gen/C16OpsGen.v,
   build expressions whose exact value is Python's integer / rational arithmetic. *)
From Coq Require Import ZArith NArith List Bool QArith Qround Qabs Qreduction Lia.
From IRV Require Import Base.Exn Gen.C16Gen C16.Model Gen.C16OpsGen C16.Ops C16.ProofsEval.
Import ListNotations.

Definition isQ (o : option Q) (q : Q) : Prop := exists r, o = Some r /\ r == q.

Lemma isZ_isQ o z : isZ o z -> isQ o (inject_Z z).
Proof. intros (q & E & H). exists q. auto. Qed.

Lemma isQ_div s a b qa qb :
  isQ (eval s a) qa -> isQ (eval s b) qb -> ~ qb == 0 -> isQ (eval s (EBin BDiv a b)) (qa / qb).
Proof.
  intros (ra & Ea & Ha) (rb & Eb & Hb) Hn. cbn [eval]. rewrite Ea, Eb. cbn [eval_bin].
  assert (Hz : qzero rb = false).
  { destruct (qzero rb) eqn:E; [|reflexivity]. apply qzero_spec in E. rewrite Hb in E. contradiction. }
  rewrite Hz. eexists. split; [reflexivity|]. rewrite Qred_correct, Ha, Hb. reflexivity.
Qed.

Lemma isQ_mul s a b qa qb :
  isQ (eval s a) qa -> isQ (eval s b) qb -> isQ (eval s (EBin BMul a b)) (qa * qb).
Proof.
  intros (ra & Ea & Ha) (rb & Eb & Hb). cbn [eval]. rewrite Ea, Eb. cbn [eval_bin].
  eexists. split; [reflexivity|]. rewrite Qred_correct, Ha, Hb. reflexivity.
Qed.

Lemma inject_nonzero y : y <> 0%Z -> ~ inject_Z y == 0.
Proof. intros H E. apply H. unfold Qeq in E. simpl in E. lia. Qed.

Lemma isZ_trunc_id s a x : isZ (eval s a) x -> isZ (eval s (ETrunc a)) x.
Proof.
  intros (q & E & H). destruct (eval_trunc s a q E) as (r & Er & Hr). exists r. split; [exact Er|].
  rewrite Hr, (Qtrunc_comp _ _ H). unfold Qtrunc, inject_Z, Qabs, Qfloor. cbn [Qnum Qden].
  rewrite Z.div_1_r. apply f_equal with (f := inject_Z) || idtac.
  assert (Z.sgn x * Z.abs x = x)%Z by (destruct x; simpl; lia). rewrite H0. reflexivity.
Qed.

Section Ops.
  Variables (s : env) (a b : expr) (x y : Z).
  Hypothesis Ha : isZ (eval s a) x.
  Hypothesis Hb : isZ (eval s b) y.

  (* dim op dim *)
  Lemma ops_dim :
    isZ (eval s (op_add_dim a b)) (x + y) /\ isZ (eval s (op_sub_dim a b)) (x - y) /\
    isZ (eval s (op_mul_dim a b)) (x * y) /\
    (y <> 0%Z -> isZ (eval s (op_floordiv_dim a b)) (x / y) /\ isZ (eval s (op_mod_dim a b)) (x mod y) /\
                 isQ (eval s (op_truediv_dim a b)) (inject_Z x / inject_Z y)).
  Proof.
    unfold op_add_dim, op_sub_dim, op_mul_dim, op_floordiv_dim, op_mod_dim, op_truediv_dim.
    repeat apply conj; [eauto using isZ_add|eauto using isZ_sub|eauto using isZ_mul|].
    intros Hy. repeat apply conj.
    - apply isZ_floordiv; assumption.
    - apply isZ_mod; assumption.
    - apply isQ_div; [apply isZ_isQ; exact Ha|apply isZ_isQ; exact Hb|apply inject_nonzero; assumption].
  Qed.

  (* dim op int, int op dim (reflected methods) *)
  Lemma ops_int k :
    isZ (eval s (op_add_int a k)) (x + k) /\ isZ (eval s (op_radd_int a k)) (k + x) /\
    isZ (eval s (op_sub_int a k)) (x - k) /\ isZ (eval s (op_rsub_int a k)) (k - x) /\
    isZ (eval s (op_mul_int a k)) (x * k) /\ isZ (eval s (op_rmul_int a k)) (k * x) /\
    (k <> 0%Z -> isZ (eval s (op_floordiv_int a k)) (x / k) /\ isZ (eval s (op_mod_int a k)) (x mod k) /\
                 isQ (eval s (op_truediv_int a k)) (inject_Z x / inject_Z k)) /\
    (x <> 0%Z -> isQ (eval s (op_rtruediv_int a k)) (inject_Z k / inject_Z x)).
  Proof.
    pose proof (isZ_int s k) as Hk.
    unfold op_radd_int, op_rmul_int, op_add_int, op_sub_int, op_rsub_int, op_mul_int, op_floordiv_int, op_mod_int,
      op_truediv_int, op_rtruediv_int.
    repeat apply conj.
    - eauto using isZ_add.
    - rewrite Z.add_comm. eauto using isZ_add.
    - eauto using isZ_sub.
    - eauto using isZ_sub.
    - eauto using isZ_mul.
    - rewrite Z.mul_comm. eauto using isZ_mul.
    - intros Hk0. repeat apply conj.
      + apply isZ_floordiv; assumption.
      + apply isZ_mod; assumption.
      + destruct (isQ_mul s (EBin BDiv (EInt 1) (EInt k)) a (1 / inject_Z k) (inject_Z x)) as (r & Er & Hr).
        * apply isQ_div; [apply isZ_isQ; apply isZ_int|apply isZ_isQ; exact Hk|apply inject_nonzero; assumption].
        * apply isZ_isQ; exact Ha.
        * exists r. split; [exact Er|]. rewrite Hr. unfold Qdiv. ring.
    - intros Hx0. apply isQ_div; [apply isZ_isQ; exact Hk|apply isZ_isQ; exact Ha|apply inject_nonzero; assumption].
  Qed.

  Lemma ops_unary :
    isZ (eval s (op_neg a)) (- x) /\ isZ (eval s (op_floor a)) x /\ isZ (eval s (op_ceil a)) x /\
    isZ (eval s (op_trunc a)) x.
  Proof.
    unfold op_neg, op_floor, op_ceil, op_trunc. repeat apply conj.
    - apply isZ_neg; assumption.
    - apply isZ_round_id; auto.
    - apply isZ_round_id; auto.
    - apply (isZ_trunc_id s a x Ha).
  Qed.
End Ops.

(* rounding methods on a quotient: math.floor / math.ceil / math.trunc of dim / dim *)
Lemma ops_round_quotient s a b x y :
  isZ (eval s a) x -> isZ (eval s b) y -> y <> 0%Z ->
  isZ (eval s (op_floor (op_truediv_dim a b))) (x / y) /\
  isZ (eval s (op_ceil (op_truediv_dim a b))) (- ((- x) / y)) /\
  isZ (eval s (op_trunc (op_truediv_dim a b))) (Z.quot x y).
Proof.
  intros Ha Hb Hy. unfold op_floor, op_ceil, op_trunc, op_truediv_dim. repeat apply conj.
  - apply (isZ_floordiv s a b x y Ha Hb Hy).
  - apply isZ_ceildiv; assumption.
  - apply (isZ_truncdiv s a b x y Ha Hb Hy).
Qed.

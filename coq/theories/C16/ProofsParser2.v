(* C16/ProofsParser2.v — totality of the parser (fuel `length ts + 1` is never exhausted), the
   model printer is read back, the source's operator tables are the ones the model uses. *)
From Coq Require Import ZArith NArith List Bool QArith Lia.
From IRV Require Import Base.Exn Gen.C16Gen C16.Model C16.ProofsParser.
Import ListNotations.

(* ------------------------------------------------------------------ lengths (from soundness) *)
Lemma starts_ok_len ts : starts_ok ts -> (0 < length ts)%nat.
Proof. destruct ts; simpl; [intros []|lia]. Qed.

Lemma start_term ts e : d_term ts e -> starts_ok ts.
Proof. destruct derivation_start as (_ & _ & H & _). apply H. Qed.
Lemma start_unary ts e : d_unary ts e -> starts_ok ts.
Proof. destruct derivation_start as (_ & _ & _ & _ & H & _). apply H. Qed.
Lemma start_primary ts e : d_primary ts e -> starts_ok ts.
Proof. destruct derivation_start as (_ & _ & _ & _ & _ & _ & H & _). apply H. Qed.

(* ------------------------------------------------------------------ no fuel exhaustion *)
Definition nofuel (m : nat) (p : parsers) : Prop :=
  (forall ts, (length ts < m)%nat -> P_expr p ts <> PFuel) /\
  (forall ts, (length ts < m)%nat -> P_term p ts <> PFuel) /\
  (forall ts, (length ts < m)%nat -> P_unary p ts <> PFuel) /\
  (forall acc ts, (length ts < m)%nat -> P_args_loop p acc ts <> PFuel) /\
  (forall a ts, (length ts < m)%nat -> P_term_loop p a ts <> PFuel) /\
  (forall a ts, (length ts < m)%nat -> P_expr_loop p a ts <> PFuel).

Lemma pbind_nofuel {A B} (r : pres A) (f : A -> list token -> pres B) :
  r <> PFuel -> (forall a r1, r = POk a r1 -> f a r1 <> PFuel) -> pbind r f <> PFuel.
Proof. destruct r; simpl; intros H1 H2; [apply H2; reflexivity|discriminate|congruence]. Qed.

Section NoFuelStep.
  Variable m : nat.
  Let p := parsers_at m.
  Hypothesis Hnf : nofuel m p.
  Let Hs : sound_level p := sound_all m.

  Lemma primary_nofuel ts : (length ts <= m)%nat -> primary_of p ts <> PFuel.
  Proof.
    destruct Hnf as (He & _ & _ & Ha & _ & _). destruct Hs as (Se & _).
    intros Hl. unfold primary_of.
    destruct ts as [|t ts]; [discriminate|]. simpl in Hl.
    destruct t as [n|s|o| | |]; try discriminate.
    - destruct ts as [|t2 ts2]; [discriminate|]. simpl in Hl.
      destruct t2 as [n2|s2|o2| | |]; try discriminate.
      destruct (lookup_fn s) as [k|]; [|discriminate].
      assert (Hclose : forall args r2,
                 match r2 with
                 | TRP :: r3 => match apply_fn k args with Some e => POk e r3 | None => PErr end
                 | _ => @PErr expr
                 end <> PFuel).
      { intros args r2. destruct r2 as [|[] r3]; try discriminate. destruct (apply_fn k args); discriminate. }
      assert (Hgen : pbind (P_expr p ts2) (fun e r1 => pbind (P_args_loop p [e] r1)
                (fun args r2 => match r2 with
                 | TRP :: r3 => match apply_fn k args with Some e => POk e r3 | None => PErr end
                 | _ => PErr end)) <> PFuel).
      { apply pbind_nofuel; [apply He; lia|]. intros e r1 E1. apply Se in E1. destruct E1 as (pre & E & _).
        apply pbind_nofuel; [|intros; apply Hclose].
        apply Ha. subst ts2. rewrite app_length in Hl. lia. }
      destruct ts2 as [|t3 ts3]; [exact Hgen|].
      destruct t3; try exact Hgen. apply (Hclose [] (TRP :: ts3)).
    - apply pbind_nofuel; [apply He; lia|]. intros e r1 _. destruct r1 as [|[] r2]; discriminate.
  Qed.

  Lemma power_nofuel ts : (length ts <= m)%nat -> power_of p ts <> PFuel.
  Proof.
    destruct Hnf as (_ & _ & Hu & _ & _ & _).
    intros Hl. unfold power_of. apply pbind_nofuel; [apply primary_nofuel; exact Hl|].
    intros b r E. apply (primary_sound p Hs) in E. destruct E as (pre & E & D).
    apply start_primary, starts_ok_len in D. subst ts. rewrite app_length in Hl.
    destruct r as [|t r2]; [discriminate|]. destruct t as [n|s|o| | |]; try discriminate.
    destruct o; try discriminate. simpl in Hl.
    apply pbind_nofuel; [apply Hu; lia|]. intros; discriminate.
  Qed.

  Lemma unary_nofuel ts : (length ts <= m)%nat -> unary_of p ts <> PFuel.
  Proof.
    destruct Hnf as (_ & _ & Hu & _ & _ & _).
    intros Hl. unfold unary_of. pose proof (power_nofuel ts Hl) as Hp.
    destruct ts as [|t ts']; [exact Hp|]. destruct t as [n|s|o| | |]; try exact Hp.
    destruct o; try exact Hp. simpl in Hl.
    apply pbind_nofuel; [apply Hu; lia|]. intros; discriminate.
  Qed.

  Lemma term_loop_nofuel a ts : (length ts <= m)%nat -> term_loop_of p a ts <> PFuel.
  Proof.
    destruct Hnf as (_ & _ & Hu & _ & Htl & _). destruct Hs as (_ & _ & Su & _).
    intros Hl. unfold term_loop_of. destruct ts as [|t ts']; [discriminate|].
    destruct t as [n|s|o| | |]; try discriminate. destruct (mulop o); [|discriminate]. simpl in Hl.
    apply pbind_nofuel; [apply Hu; lia|]. intros b r1 E. apply Su in E. destruct E as (pre & E & _).
    apply Htl. subst ts'. rewrite app_length in Hl. lia.
  Qed.

  Lemma term_nofuel ts : (length ts <= m)%nat -> term_of p ts <> PFuel.
  Proof.
    intros Hl. unfold term_of. apply pbind_nofuel; [apply unary_nofuel; exact Hl|].
    intros a r E. apply (unary_sound p Hs) in E. destruct E as (pre & E & _).
    apply term_loop_nofuel. subst ts. rewrite app_length in Hl. lia.
  Qed.

  Lemma expr_loop_nofuel a ts : (length ts <= m)%nat -> expr_loop_of p a ts <> PFuel.
  Proof.
    destruct Hnf as (_ & Ht & _ & _ & _ & Hel). destruct Hs as (_ & St & _).
    intros Hl. unfold expr_loop_of. destruct ts as [|t ts']; [discriminate|].
    destruct t as [n|s|o| | |]; try discriminate. destruct (addop o); [|discriminate]. simpl in Hl.
    apply pbind_nofuel; [apply Ht; lia|]. intros b r1 E. apply St in E. destruct E as (pre & E & _).
    apply Hel. subst ts'. rewrite app_length in Hl. lia.
  Qed.

  Lemma expr_nofuel ts : (length ts <= m)%nat -> expr_of p ts <> PFuel.
  Proof.
    intros Hl. unfold expr_of. apply pbind_nofuel; [apply term_nofuel; exact Hl|].
    intros a r E. apply (term_sound p Hs) in E. destruct E as (pre & E & _).
    apply expr_loop_nofuel. subst ts. rewrite app_length in Hl. lia.
  Qed.

  Lemma args_loop_nofuel acc ts : (length ts <= m)%nat -> args_loop_of p acc ts <> PFuel.
  Proof.
    destruct Hnf as (He & _ & _ & Ha & _ & _). destruct Hs as (Se & _).
    intros Hl. unfold args_loop_of. destruct ts as [|t ts']; [discriminate|].
    destruct t as [n|s|o| | |]; try discriminate. simpl in Hl.
    apply pbind_nofuel; [apply He; lia|]. intros b r1 E. apply Se in E. destruct E as (pre & E & _).
    apply Ha. subst ts'. rewrite app_length in Hl. lia.
  Qed.
End NoFuelStep.

Lemma nofuel_all m : nofuel m (parsers_at m).
Proof.
  induction m as [|m IH].
  - repeat split; intros; lia.
  - repeat split; simpl; intros.
    + apply expr_nofuel; [exact IH|lia].
    + apply term_nofuel; [exact IH|lia].
    + apply unary_nofuel; [exact IH|lia].
    + apply args_loop_nofuel; [exact IH|lia].
    + apply term_loop_nofuel; [exact IH|lia].
    + apply expr_loop_nofuel; [exact IH|lia].
Qed.

(* the parser terminates with a tree or a rejection: the fuel it is given is never exhausted *)
Theorem parser_total ts : parse_fuel (S (length ts)) ts <> PFuel.
Proof.
  unfold parse_fuel. destruct (nofuel_all (S (length ts))) as (He & _).
  specialize (He ts (Nat.lt_succ_diag_r _)).
  destruct (P_expr (parsers_at (S (length ts))) ts) as [e [|]| |]; try discriminate. congruence.
Qed.

(* hence None of parse_tokens means "rejected" (ValueError / TypeError in the implementation) *)
Corollary parse_tokens_none_is_reject ts :
  parse_tokens ts = None -> parse_fuel (S (length ts)) ts = PErr.
Proof.
  unfold parse_tokens. pose proof (parser_total ts) as H.
  destruct (parse_fuel (S (length ts)) ts); [discriminate|reflexivity|congruence].
Qed.

(* ------------------------------------------------------------------ the model printer is read back *)
Lemma lift_unary ts e : d_primary ts e -> d_unary ts e.
Proof. intros D. apply DUpow, DPprim, D. Qed.
Lemma lift_term_u ts e : d_unary ts e -> d_term ts e.
Proof. intros D. rewrite <- (app_nil_r ts). econstructor; [exact D|constructor]. Qed.
Lemma lift_expr_t ts e : d_term ts e -> d_expr ts e.
Proof. intros D. rewrite <- (app_nil_r ts). econstructor; [exact D|constructor]. Qed.
Lemma lift_term ts e : d_primary ts e -> d_term ts e.
Proof. intros D. apply lift_term_u, lift_unary, D. Qed.
Lemma lift_expr ts e : d_primary ts e -> d_expr ts e.
Proof. intros D. apply lift_expr_t, lift_term, D. Qed.

Lemma lookup_fn1 f : lookup_fn (fn1_name f) = Some (K1 f).
Proof. destruct f; vm_compute; reflexivity. Qed.
Lemma lookup_call o : infix_of o = None ->
  lookup_fn (call_name o) = Some (match o with BMod => KMod | BMax => KMax | _ => KMin end).
Proof. destruct o; simpl; intros H; try discriminate; vm_compute; reflexivity. Qed.

Lemma prt_primary e : d_primary (prt e) (norm e).
Proof.
  induction e as [x|z|a IH|f a IH|o a IHa b IHb]; simpl.
  - constructor.
  - destruct (z <? 0)%Z eqn:E.
    + change [TLP; TOp OMinus; TNum (Z.to_N (- z)); TRP] with (TLP :: [TOp OMinus; TNum (Z.to_N (- z))] ++ [TRP]).
      apply DPparen. apply lift_expr_t, lift_term_u. apply DUneg.
      replace (- z)%Z with (Z.of_N (Z.to_N (- z))) at 2 by (apply Z.ltb_lt in E; rewrite Z2N.id; lia).
      apply lift_unary. constructor.
    + replace z with (Z.of_N (Z.to_N z)) at 2 by (apply Z.ltb_ge in E; rewrite Z2N.id; lia).
      constructor.
  - change (TLP :: TOp OMinus :: prt a ++ [TRP]) with (TLP :: (TOp OMinus :: prt a) ++ [TRP]).
    apply DPparen. apply lift_expr_t, lift_term_u. apply DUneg, lift_unary, IH.
  - change (TId (fn1_name f) :: TLP :: prt a ++ [TRP]) with (TId (fn1_name f) :: TLP :: prt a ++ [] ++ [TRP]).
    eapply DPcall; [apply lookup_fn1|apply lift_expr; exact IH|constructor|reflexivity].
  - destruct (infix_of o) as [i|] eqn:Ei.
    + replace (TLP :: prt a ++ TOp i :: prt b ++ [TRP]) with (TLP :: (prt a ++ TOp i :: prt b) ++ [TRP])
        by (rewrite <- app_assoc; reflexivity).
      apply DPparen.
      destruct o; simpl in Ei; inversion Ei; subst i; clear Ei.
      * (* + *) apply DE with (a := norm a); [apply lift_term; exact IHa|].
        rewrite <- (app_nil_r (prt b)). eapply DEcons; [reflexivity|apply lift_term; exact IHb|constructor].
      * (* - *) apply DE with (a := norm a); [apply lift_term; exact IHa|].
        rewrite <- (app_nil_r (prt b)). eapply DEcons; [reflexivity|apply lift_term; exact IHb|constructor].
      * (* * *) apply lift_expr_t. apply DT with (a := norm a); [apply lift_unary; exact IHa|].
        rewrite <- (app_nil_r (prt b)). eapply DTcons; [reflexivity|apply lift_unary; exact IHb|constructor].
      * (* / *) apply lift_expr_t. apply DT with (a := norm a); [apply lift_unary; exact IHa|].
        rewrite <- (app_nil_r (prt b)). eapply DTcons; [reflexivity|apply lift_unary; exact IHb|constructor].
      * (* ** *) apply lift_expr_t, lift_term_u, DUpow. apply DPpow; [exact IHa|apply lift_unary; exact IHb].
    + replace (TId (call_name o) :: TLP :: prt a ++ TComma :: prt b ++ [TRP])
        with (TId (call_name o) :: TLP :: prt a ++ (TComma :: prt b ++ []) ++ [TRP])
        by (simpl; rewrite app_nil_r; reflexivity).
      eapply DPcall; [apply lookup_call; exact Ei|apply lift_expr; exact IHa| |].
      * eapply DAcons; [apply lift_expr; exact IHb|constructor].
      * destruct o; simpl in Ei; try discriminate; reflexivity.
Qed.

Lemma eval_norm s e : eval s (norm e) = eval s e.
Proof.
  induction e as [x|z|a IH|f a IH|o a IHa b IHb]; cbn [norm eval].
  - reflexivity.
  - destruct (z <? 0)%Z; cbn [eval]; [|reflexivity].
    unfold inject_Z, Qopp. cbn [Qnum Qden]. rewrite Z.opp_involutive. reflexivity.
  - rewrite IH. reflexivity.
  - rewrite IH. reflexivity.
  - rewrite IHa, IHb. reflexivity.
Qed.

(* tokens of the printed form parse back to a tree with the same value under every binding *)
Theorem print_parse_tokens e :
  parse_tokens (prt e) = Some (norm e) /\ forall s, eval s (norm e) = eval s e.
Proof.
  split; [|intros; apply eval_norm].
  apply parser_complete. apply lift_expr. apply prt_primary.
Qed.

(* ------------------------------------------------------------------ the source's tables *)
(* Operator sets and call structure read from the source (Gen/C16Gen.v) are the ones the model implements;
   these fail to check as soon as the grammar's operator sets or the shape of the descent change. *)
Definition op_text (o : op) : list N := op_chars o.
Definition all_ops : list op := [OPlus; OMinus; OStar; OSlash; ODSlash; OPct; OPow].
Definition ops_where (f : op -> bool) : list (list N) := map op_text (filter f all_ops).
Definition is_some {A} (o : option A) : bool := match o with Some _ => true | None => false end.

Fixpoint mem_name (x : list N) (l : list (list N)) : bool :=
  match l with [] => false | y :: r => name_eqb x y || mem_name x r end.
Definition same_set (a b : list (list N)) : bool :=
  forallb (fun x => mem_name x b) a && forallb (fun x => mem_name x a) b.

Definition tables_ok : bool :=
  same_set expr_ops (ops_where (fun o => is_some (addop o)))
  && same_set term_ops (ops_where (fun o => is_some (mulop o)))
  && same_set power_ops [op_text OPow]
  && same_set unary_ops [op_text OMinus]
  && list_eqb name_eqb expr_branch_ops [op_text OPlus]
  && list_eqb name_eqb term_branch_ops [op_text OStar; op_text OSlash; op_text ODSlash]
  && same_set tok_two_char_ops [op_text OPow; op_text ODSlash]
  && same_set (map (fun c => [c]) tok_one_char_ops) (map op_text [OPlus; OMinus; OStar; OSlash; OPct])
  && list_eqb N.eqb tok_single_chars [95; 40; 41; 44]%N
  && list_eqb N.eqb tok_ident_extra [95; 46]%N
  && symbol_integer_positive.

(* _parse_expr -> _parse_term, _parse_term -> _parse_unary, _parse_power -> _parse_primary then _parse_unary,
   _parse_unary -> _parse_unary | _parse_power, _parse_primary -> call | _parse_expr, call -> _parse_expr* *)
Definition s_term := [95;112;97;114;115;101;95;116;101;114;109]%N.
Definition s_unary := [95;112;97;114;115;101;95;117;110;97;114;121]%N.
Definition s_power := [95;112;97;114;115;101;95;112;111;119;101;114]%N.
Definition s_primary := [95;112;97;114;115;101;95;112;114;105;109;97;114;121]%N.
Definition s_expr := [95;112;97;114;115;101;95;101;120;112;114]%N.
Definition s_call := [95;112;97;114;115;101;95;102;117;110;99;116;105;111;110;95;99;97;108;108]%N.
Definition descent_ok : bool :=
  list_eqb name_eqb calls_expr [s_term; s_term]
  && list_eqb name_eqb calls_term [s_unary; s_unary]
  && list_eqb name_eqb calls_power [s_primary; s_unary]
  && list_eqb name_eqb calls_unary [s_unary; s_power]
  && list_eqb name_eqb calls_primary [s_call; s_expr]
  && list_eqb name_eqb calls_call [s_expr; s_expr].

Lemma tables_current : tables_ok = true /\ descent_ok = true.
Proof. split; vm_compute; reflexivity. Qed.

(* every name SymPy's printer uses for the modelled constructors is accepted by the parser, and every
   accepted name denotes a constructor of the model *)
Lemma function_table_covers :
  (forall f, lookup_fn (fn1_name f) = Some (K1 f)) /\
  lookup_fn n_Mod = Some KMod /\ lookup_fn n_Max = Some KMax /\ lookup_fn n_Min = Some KMin /\
  forallb (fun kv => is_some (sympy_fn (snd kv))) allowed_functions = true.
Proof. repeat split; try (intros f; apply lookup_fn1); vm_compute; reflexivity. Qed.

Lemma function_table_exact :
  map (fun kv => (fst kv, lookup_fn (fst kv))) allowed_functions =
  [ ([109; 97; 120]%N, Some KMax); (n_Max, Some KMax); ([109; 105; 110]%N, Some KMin); (n_Min, Some KMin);
    (n_floor, Some (K1 FFloor)); (n_ceiling, Some (K1 FCeil)); (n_Abs, Some (K1 FAbs)); (n_sign, Some (K1 FSign));
    (n_sqrt, Some (K1 FSqrt)); ([109; 111; 100]%N, Some KMod); (n_Mod, Some KMod) ].
Proof. vm_compute. reflexivity. Qed.

(* C16/ProofsEval.v — evaluation: partial bindings, integer semantics of the rounding operators. *)
From Coq Require Import ZArith NArith List Bool QArith Qround Qabs Qreduction Lia.
From IRV Require Import Base.Exn Gen.C16Gen C16.Model.
Import ListNotations.

(* ------------------------------------------------------------------ partial bindings *)
Lemma lookup_app s1 s2 x :
  lookup (s1 ++ s2) x = match lookup s1 x with Some v => Some v | None => lookup s2 x end.
Proof.
  induction s1 as [|[y v] r IH]; simpl; [reflexivity|].
  destruct (name_eqb x y); [reflexivity|exact IH].
Qed.

Lemma partial_consistent s1 s2 e : eval s2 (subst s1 e) = eval (s1 ++ s2) e.
Proof.
  induction e as [x|z|a IH|f a IH|o a IHa b IHb]; simpl.
  - rewrite lookup_app. destruct (lookup s1 x); reflexivity.
  - reflexivity.
  - rewrite IH. reflexivity.
  - rewrite IH. reflexivity.
  - rewrite IHa, IHb. reflexivity.
Qed.

Lemma subst_nil e : subst [] e = e.
Proof. induction e; simpl; congruence. Qed.

(* binding everything first leaves a closed expression *)
Lemma complete_then_empty s e : eval [] (subst s e) = eval s e.
Proof. rewrite partial_consistent, app_nil_r. reflexivity. Qed.

(* a residual has exactly the unbound symbols *)
Lemma free_syms_subst s e :
  free_syms (subst s e) = filter (fun x => match lookup s x with None => true | Some _ => false end) (free_syms e).
Proof.
  induction e as [x|z|a IH|f a IH|o a IHa b IHb]; simpl; try assumption; try reflexivity.
  - destruct (lookup s x); reflexivity.
  - rewrite filter_app, IHa, IHb. reflexivity.
Qed.

(* an expression whose symbols are all bound and which stays inside the fragment has a value:
   evaluation depends only on the bound symbols that occur *)
Lemma eval_ext s1 s2 e :
  (forall x, In x (free_syms e) -> lookup s1 x = lookup s2 x) -> eval s1 e = eval s2 e.
Proof.
  induction e as [x|z|a IH|f a IH|o a IHa b IHb]; simpl; intros H.
  - rewrite (H x); [reflexivity|left; reflexivity].
  - reflexivity.
  - rewrite IH; auto.
  - rewrite IH; auto.
  - rewrite IHa, IHb; auto; intros x Hx; apply H; apply in_or_app; auto.
Qed.

(* ------------------------------------------------------------------ integer values *)
Definition isZ (o : option Q) (z : Z) : Prop := exists q, o = Some q /\ q == inject_Z z.

Lemma qzero_spec q : qzero q = true <-> q == 0.
Proof.
  unfold qzero, Qeq. simpl. rewrite Z.eqb_eq. destruct q as [n d]. simpl. lia.
Qed.

Lemma qzero_inject z : qzero (inject_Z z) = (z =? 0)%Z.
Proof. reflexivity. Qed.

Lemma qzero_comp q q' : q == q' -> qzero q = qzero q'.
Proof.
  intros H. destruct (qzero q) eqn:E, (qzero q') eqn:E'; try reflexivity.
  - apply qzero_spec in E. rewrite H in E. apply qzero_spec in E. congruence.
  - apply qzero_spec in E'. rewrite <- H in E'. apply qzero_spec in E'. congruence.
Qed.

Lemma Qfloor_div_Z x y : y <> 0%Z -> Qfloor (inject_Z x / inject_Z y) = (x / y)%Z.
Proof.
  intros Hy. unfold Qdiv, Qinv, inject_Z. simpl. destruct y as [|p|p]; [congruence| |]; simpl.
  - rewrite Z.mul_1_r. reflexivity.
  - replace (x / Z.neg p)%Z with ((- x) / Z.pos p)%Z.
    2:{ rewrite <- (Z.div_opp_opp (-x) (Z.pos p)) by lia. f_equal; lia. }
    f_equal. lia.
Qed.

Lemma sgn_num_comp q q' : q == q' -> Z.sgn (Qnum q) = Z.sgn (Qnum q').
Proof.
  destruct q as [n d], q' as [n' d']. unfold Qeq. simpl. intros H.
  destruct n, n'; simpl; try reflexivity; lia.
Qed.

Lemma isZ_int s z : isZ (eval s (EInt z)) z.
Proof. exists (inject_Z z). split; reflexivity. Qed.

Lemma isZ_sym s x v : lookup s x = Some v -> isZ (eval s (ESym x)) v.
Proof. intros H. simpl. rewrite H. exists (inject_Z v). split; reflexivity. Qed.

Lemma isZ_neg s a x : isZ (eval s a) x -> isZ (eval s (ENeg a)) (- x).
Proof.
  intros (q & E & H). cbn [eval]. rewrite E. eexists. split; [reflexivity|].
  rewrite H. unfold inject_Z, Qopp, Qeq. simpl. reflexivity.
Qed.

Lemma isZ_add s a b x y : isZ (eval s a) x -> isZ (eval s b) y -> isZ (eval s (EBin BAdd a b)) (x + y).
Proof.
  intros (qa & Ea & Ha) (qb & Eb & Hb). cbn [eval]. rewrite Ea, Eb. cbn [eval_bin eval_un]. eexists. split; [reflexivity|].
  rewrite Qred_correct, Ha, Hb, inject_Z_plus. reflexivity.
Qed.

Lemma isZ_sub s a b x y : isZ (eval s a) x -> isZ (eval s b) y -> isZ (eval s (EBin BSub a b)) (x - y).
Proof.
  intros (qa & Ea & Ha) (qb & Eb & Hb). cbn [eval]. rewrite Ea, Eb. cbn [eval_bin eval_un]. eexists. split; [reflexivity|].
  rewrite Qred_correct, Ha, Hb. unfold Qminus. rewrite <- inject_Z_opp, <- inject_Z_plus. reflexivity.
Qed.

Lemma isZ_mul s a b x y : isZ (eval s a) x -> isZ (eval s b) y -> isZ (eval s (EBin BMul a b)) (x * y).
Proof.
  intros (qa & Ea & Ha) (qb & Eb & Hb). cbn [eval]. rewrite Ea, Eb. cbn [eval_bin eval_un]. eexists. split; [reflexivity|].
  rewrite Qred_correct, Ha, Hb, inject_Z_mult. reflexivity.
Qed.

(* a // b  (built as floor(a / b)) is Python's floor division *)
Lemma isZ_floordiv s a b x y :
  isZ (eval s a) x -> isZ (eval s b) y -> y <> 0%Z -> isZ (eval s (EFloorDiv a b)) (x / y).
Proof.
  intros (qa & Ea & Ha) (qb & Eb & Hb) Hy. unfold EFloorDiv. cbn [eval]. rewrite Ea, Eb. cbn [eval_bin eval_un].
  assert (Hz : qzero qb = false).
  { rewrite (qzero_comp _ _ Hb), qzero_inject. apply Z.eqb_neq. exact Hy. }
  rewrite Hz. cbn [eval_un]. eexists. split; [reflexivity|].
  assert (E : Qfloor (Qred (qa / qb)) = (x / y)%Z).
  { rewrite <- (Qfloor_div_Z x y Hy). apply Qfloor_comp. rewrite Qred_correct, Ha, Hb. reflexivity. }
  rewrite E. reflexivity.
Qed.

(* a % b  (Mod(a, b)) is Python's modulo: sign of the divisor *)
Lemma isZ_mod s a b x y :
  isZ (eval s a) x -> isZ (eval s b) y -> y <> 0%Z -> isZ (eval s (EBin BMod a b)) (x mod y).
Proof.
  intros (qa & Ea & Ha) (qb & Eb & Hb) Hy. cbn [eval]. rewrite Ea, Eb. cbn [eval_bin eval_un].
  assert (Hz : qzero qb = false).
  { rewrite (qzero_comp _ _ Hb), qzero_inject. apply Z.eqb_neq. exact Hy. }
  rewrite Hz. eexists. split; [reflexivity|].
  assert (E : Qfloor (qa / qb) = (x / y)%Z).
  { rewrite <- (Qfloor_div_Z x y Hy). apply Qfloor_comp. rewrite Ha, Hb. reflexivity. }
  rewrite E, Qred_correct, Ha, Hb.
  unfold Qminus. rewrite <- inject_Z_mult, <- inject_Z_opp, <- inject_Z_plus.
  rewrite (Z.mod_eq x y Hy). unfold Z.sub. reflexivity.
Qed.

(* floor, ceiling of the exact rational value; ceil x = - floor (- x) *)
Lemma eval_floor s e q : eval s e = Some q -> eval s (EUn FFloor e) = Some (inject_Z (Qfloor q)).
Proof. intros H. simpl. rewrite H. reflexivity. Qed.

Lemma eval_ceil s e q : eval s e = Some q -> eval s (EUn FCeil e) = Some (inject_Z (- Qfloor (- q))).
Proof. intros H. simpl. rewrite H. reflexivity. Qed.

Lemma isZ_ceildiv s a b x y :
  isZ (eval s a) x -> isZ (eval s b) y -> y <> 0%Z -> isZ (eval s (EUn FCeil (EBin BDiv a b))) (- ((- x) / y)).
Proof.
  intros (qa & Ea & Ha) (qb & Eb & Hb) Hy. cbn [eval]. rewrite Ea, Eb. cbn [eval_bin eval_un].
  assert (Hz : qzero qb = false).
  { rewrite (qzero_comp _ _ Hb), qzero_inject. apply Z.eqb_neq. exact Hy. }
  rewrite Hz. cbn [eval_un]. eexists. split; [reflexivity|].
  unfold Qceiling.
  assert (E : Qfloor (- Qred (qa / qb)) = ((- x) / y)%Z).
  { rewrite <- (Qfloor_div_Z (- x) y Hy). apply Qfloor_comp. rewrite Qred_correct, Ha, Hb.
    rewrite inject_Z_opp. unfold Qdiv. ring. }
  rewrite E. reflexivity.
Qed.

(* trunc(x) (built as sign(x) * floor(Abs(x))) rounds toward zero *)
Definition Qtrunc (q : Q) : Z := (Z.sgn (Qnum q) * Qfloor (Qabs q))%Z.

Lemma eval_trunc s e q : eval s e = Some q -> exists r, eval s (ETrunc e) = Some r /\ r == inject_Z (Qtrunc q).
Proof.
  intros H. unfold ETrunc. cbn [eval]. rewrite H. cbn [eval_un eval_bin]. eexists. split; [reflexivity|].
  rewrite Qred_correct, <- inject_Z_mult. reflexivity.
Qed.

Lemma Qtrunc_quot q : Qtrunc q = Z.quot (Qnum q) (Z.pos (Qden q)).
Proof.
  destruct q as [n d]. unfold Qtrunc, Qabs, Qfloor. simpl.
  rewrite (Z.quot_div n (Z.pos d)) by lia.
  replace (Z.sgn (Z.pos d)) with 1%Z by reflexivity.
  replace (Z.abs (Z.pos d)) with (Z.pos d) by reflexivity. ring.
Qed.

Lemma Qtrunc_comp q q' : q == q' -> Qtrunc q = Qtrunc q'.
Proof.
  intros H. unfold Qtrunc. rewrite (sgn_num_comp _ _ H). f_equal. apply Qfloor_comp. rewrite H. reflexivity.
Qed.

Lemma Qtrunc_div_Z x y : y <> 0%Z -> Qtrunc (inject_Z x / inject_Z y) = Z.quot x y.
Proof.
  intros Hy. rewrite Qtrunc_quot. unfold Qdiv, Qinv, inject_Z. simpl. destruct y as [|p|p]; [congruence| |]; simpl.
  - rewrite Z.mul_1_r. reflexivity.
  - change (Z.neg p) with (- Z.pos p)%Z. rewrite Z.quot_opp_r by lia.
    rewrite <- Z.quot_opp_l by lia. f_equal. lia.
Qed.

Lemma isZ_truncdiv s a b x y :
  isZ (eval s a) x -> isZ (eval s b) y -> y <> 0%Z -> isZ (eval s (ETrunc (EBin BDiv a b))) (Z.quot x y).
Proof.
  intros (qa & Ea & Ha) (qb & Eb & Hb) Hy.
  assert (Hz : qzero qb = false).
  { rewrite (qzero_comp _ _ Hb), qzero_inject. apply Z.eqb_neq. exact Hy. }
  assert (Ed : eval s (EBin BDiv a b) = Some (Qred (qa / qb))).
  { cbn [eval]. rewrite Ea, Eb. cbn [eval_bin eval_un]. rewrite Hz. reflexivity. }
  destruct (eval_trunc _ _ _ Ed) as (r & Er & Hr). exists r. split; [exact Er|].
  rewrite Hr. rewrite <- (Qtrunc_div_Z x y Hy).
  rewrite (Qtrunc_comp (Qred (qa / qb)) (inject_Z x / inject_Z y)); [reflexivity|].
  rewrite Qred_correct, Ha, Hb. reflexivity.
Qed.

Lemma Qle_bool_inject x y : Qle_bool (inject_Z x) (inject_Z y) = (x <=? y)%Z.
Proof. unfold Qle_bool, inject_Z. simpl. rewrite !Z.mul_1_r. reflexivity. Qed.

Lemma Qle_bool_comp a a' b b' : a == a' -> b == b' -> Qle_bool a b = Qle_bool a' b'.
Proof.
  intros Ha Hb. destruct (Qle_bool a b) eqn:E, (Qle_bool a' b') eqn:E'; try reflexivity.
  - apply Qle_bool_iff in E. rewrite Ha, Hb in E. apply Qle_bool_iff in E. congruence.
  - apply Qle_bool_iff in E'. rewrite <- Ha, <- Hb in E'. apply Qle_bool_iff in E'. congruence.
Qed.

Lemma isZ_max s a b x y : isZ (eval s a) x -> isZ (eval s b) y -> isZ (eval s (EBin BMax a b)) (Z.max x y).
Proof.
  intros (qa & Ea & Ha) (qb & Eb & Hb). cbn [eval]. rewrite Ea, Eb. cbn [eval_bin eval_un]. eexists. split; [reflexivity|].
  rewrite (Qle_bool_comp _ _ _ _ Ha Hb), Qle_bool_inject.
  destruct (x <=? y)%Z eqn:E.
  - rewrite Z.max_r by (apply Z.leb_le; exact E). exact Hb.
  - rewrite Z.max_l by (apply Z.leb_gt in E; lia). exact Ha.
Qed.

Lemma isZ_min s a b x y : isZ (eval s a) x -> isZ (eval s b) y -> isZ (eval s (EBin BMin a b)) (Z.min x y).
Proof.
  intros (qa & Ea & Ha) (qb & Eb & Hb). cbn [eval]. rewrite Ea, Eb. cbn [eval_bin eval_un]. eexists. split; [reflexivity|].
  rewrite (Qle_bool_comp _ _ _ _ Ha Hb), Qle_bool_inject.
  destruct (x <=? y)%Z eqn:E.
  - rewrite Z.min_l by (apply Z.leb_le; exact E). exact Ha.
  - rewrite Z.min_r by (apply Z.leb_gt in E; lia). exact Hb.
Qed.

(* rounding an integer is the identity *)
Lemma isZ_round_id s e x f : isZ (eval s e) x -> (f = FFloor \/ f = FCeil) -> isZ (eval s (EUn f e)) x.
Proof.
  intros (q & E & H) Hf. cbn [eval]. rewrite E.
  destruct Hf as [-> | ->]; cbn [eval_un]; eexists; (split; [reflexivity|]).
  - rewrite (Qfloor_comp _ _ H), Qfloor_Z. reflexivity.
  - rewrite (Qceiling_comp _ _ H), Qceiling_Z. reflexivity.
Qed.

(* qint recognises exactly the integers *)
Lemma qint_inject z : qint (inject_Z z) = Some z.
Proof.
  unfold qint. assert (E : Qred (inject_Z z) = inject_Z z).
  { unfold inject_Z, Qred. pose proof (Z.ggcd_gcd z 1) as G. pose proof (Z.ggcd_correct_divisors z 1) as D.
    destruct (Z.ggcd z 1) as [g [aa bb]]. simpl in *. rewrite Z.gcd_1_r in G. subst g.
    destruct D as [D1 D2]. rewrite Z.mul_1_l in D1, D2. subst. reflexivity. }
  rewrite E. reflexivity.
Qed.

Lemma qint_comp q q' : q == q' -> qint q = qint q'.
Proof. intros H. unfold qint. rewrite (Qred_complete _ _ H). reflexivity. Qed.

Lemma eval_int_of_isZ s e z : isZ (eval s e) z -> eval_int s e = Some z.
Proof.
  intros (q & E & H). unfold eval_int. rewrite E, (qint_comp _ _ H). apply qint_inject.
Qed.

(* exact integer powers (non-negative exponent) *)
From Coq Require Import Qpower.
Lemma isZ_pow s a b x y :
  isZ (eval s a) x -> isZ (eval s b) y -> (0 <= y)%Z -> isZ (eval s (EBin BPow a b)) (x ^ y).
Proof.
  intros (qa & Ea & Ha) (qb & Eb & Hb) Hy. cbn [eval]. rewrite Ea, Eb. cbn [eval_bin].
  rewrite (qint_comp _ _ Hb), qint_inject.
  assert (Hn : (y <? 0)%Z = false) by (apply Z.ltb_ge; exact Hy).
  rewrite Hn, andb_false_r. eexists. split; [reflexivity|].
  rewrite Qred_correct, Ha. symmetry. apply Zpower_Qpower. exact Hy.
Qed.

(* a negative exponent is the exact reciprocal: x ** -k = 1 / x ** k  (x <> 0) *)
Lemma eval_pow_neg s a b x k :
  isZ (eval s a) x -> isZ (eval s b) (- Z.pos k) -> x <> 0%Z ->
  exists q, eval s (EBin BPow a b) = Some q /\ q == / inject_Z (x ^ Z.pos k).
Proof.
  intros (qa & Ea & Ha) (qb & Eb & Hb) Hx. cbn [eval]. rewrite Ea, Eb. cbn [eval_bin].
  rewrite (qint_comp _ _ Hb), qint_inject.
  assert (Hz : qzero qa = false).
  { rewrite (qzero_comp _ _ Ha), qzero_inject. apply Z.eqb_neq. exact Hx. }
  rewrite Hz. cbn [andb]. eexists. split; [reflexivity|].
  rewrite Qred_correct, Ha. change (- Z.pos k)%Z with (Z.neg k). cbn [Qpower].
  rewrite (Zpower_Qpower x (Z.pos k)) by discriminate. reflexivity.
Qed.

(* C16/Ops.v — build trees: what a USER applies to SymbolicDim objects, and the expression ir-py asks SymPy to
   build for them, through the operator methods TRANSLATED from _core.py (Gen/C16OpsGen.v, regenerated every run).
   Definitions only.  Dispatch as Python does it: `dim op int` -> the int branch, `int op dim` -> the reflected
   method where SymbolicDim has one (radd, rsub, rmul, rtruediv), otherwise the int is first written as the
   dimension text of the integer (SymbolicDim("3"), SymbolicDim("-3") = -(3)); max / min / pow / abs / sign / sqrt
   have no operator and are composed through the dimension text (parser constructors). *)
From Coq Require Import ZArith NArith List.
From IRV Require Import Base.Exn Gen.C16Gen C16.Model Gen.C16OpsGen.
Import ListNotations.

Inductive bun := BuNeg | BuFloor | BuCeil | BuTrunc | BuAbs | BuSign | BuSqrt.
Inductive bbin := BbAdd | BbSub | BbMul | BbDiv | BbFloorDiv | BbMod | BbMax | BbMin | BbPow.
Inductive btree :=
| KSym (x : name)
| KUsym (x : name) (k c : Z)      (* SymbolicDim(k * sympy.Symbol(x, ...) + c): caller-supplied expression *)
| KInt (z : Z)
| KUn (u : bun) (t : btree)
| KBin (o : bbin) (a b : btree).

Definition lit (t : btree) : option Z := match t with KInt z => Some z | _ => None end.

(* a op b with the Python operand kinds: la / lb = the int when the operand is an int literal *)
Definition dispatch (f_int : expr -> Z -> expr) (f_dim : expr -> expr -> expr) (f_rint : option (expr -> Z -> expr))
           (la : option Z) (ea : expr) (lb : option Z) (eb : expr) : expr :=
  match la, lb with
  | _, Some z => f_int ea z                                   (* dim op int (a lone int on the left is written as a dim first) *)
  | Some z, None => match f_rint with Some r => r eb z | None => f_dim ea eb end
  | None, None => f_dim ea eb
  end.

Fixpoint to_expr (t : btree) : expr :=
  match t with
  | KSym x => ESym x
  | KUsym x k c => EBin BAdd (EBin BMul (EInt k) (ESym x)) (EInt c)
  | KInt z => norm (EInt z)
  | KUn u a =>
      let x := to_expr a in
      match u with
      | BuNeg => op_neg x | BuFloor => op_floor x | BuCeil => op_ceil x | BuTrunc => op_trunc x
      | BuAbs => EUn FAbs x | BuSign => EUn FSign x | BuSqrt => EUn FSqrt x
      end
  | KBin o a b =>
      let ea := to_expr a in let eb := to_expr b in
      match o with
      | BbAdd => dispatch op_add_int op_add_dim (Some op_radd_int) (lit a) ea (lit b) eb
      | BbSub => dispatch op_sub_int op_sub_dim (Some op_rsub_int) (lit a) ea (lit b) eb
      | BbMul => dispatch op_mul_int op_mul_dim (Some op_rmul_int) (lit a) ea (lit b) eb
      | BbDiv => dispatch op_truediv_int op_truediv_dim (Some op_rtruediv_int) (lit a) ea (lit b) eb
      | BbFloorDiv => dispatch op_floordiv_int op_floordiv_dim None (lit a) ea (lit b) eb
      | BbMod => dispatch op_mod_int op_mod_dim None (lit a) ea (lit b) eb
      | BbMax => EBin BMax ea eb
      | BbMin => EBin BMin ea eb
      | BbPow => EBin BPow ea eb
      end
  end.

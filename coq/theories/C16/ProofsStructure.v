(* C16/ProofsStructure.v — fail-closed structural pin of the parser source.
   Gen/C16Gen.v records, from the source text as it is now: the module's top-level names, the methods of
   _ExpressionTokenizer and _ExpressionParser, every `self.<attr>` they assign (their state variables) and
   the number of `raise` statements per method.  The model (tokenizer state = position in the text, parser state =
   current token; rejections exactly where Model.v returns None/PErr) describes THAT structure.  A new state
   variable, method or rejection path (e.g. a counter with a limit) makes this lemma fail: the correspondence
   is then reported broken and the harness searches for a concrete input. *)
From Coq Require Import NArith List Bool String Ascii.
From IRV Require Import Base.Exn Gen.C16Gen C16.Model.
Import ListNotations.

Fixpoint codes (s : string) : list N :=
  match s with
  | EmptyString => []
  | String a r => N_of_ascii a :: codes r
  end.

Local Open Scope string_scope.

Definition expected_top : list (list N) :=
  [codes "__all__"; codes "_ALLOWED_FUNCTIONS"; codes "_ExpressionTokenizer"; codes "_ExpressionParser";
   codes "parse_symbolic_expression"].

Definition expected_classes : list (list N * list (list N) * list (list N) * list (list N * N)) :=
  [ (codes "_ExpressionTokenizer",
     [codes "__init__"; codes "peek"; codes "_skip_whitespace"; codes "get_token"],
     [codes "length"; codes "pos"; codes "text"],
     [(codes "get_token", 1%N)]);
    (codes "_ExpressionParser",
     [codes "__init__"; codes "_advance"; codes "_expect"; codes "parse"; codes "_parse_expr"; codes "_parse_term";
      codes "_parse_power"; codes "_parse_unary"; codes "_parse_primary"; codes "_parse_function_call"],
     [codes "current_token"; codes "text"; codes "tokenizer"],
     [(codes "_expect", 1%N); (codes "parse", 1%N); (codes "_parse_primary", 2%N);
      (codes "_parse_function_call", 1%N)]) ].

(* statement-level pin: the normalised AST (no positions, no docstrings) of every method of the tokenizer and the
   parser is the one Model.v was written against.  ANY edit of these methods (other than comments / docstrings)
   invalidates the hand model until it has been re-read: fail closed. *)
Definition expected_digests : list (list N * list N) :=
  [ (codes "_ExpressionTokenizer.__init__", codes "b5c14ccd7f5f3cea");
    (codes "_ExpressionTokenizer.peek", codes "b02b74f66ed62f3d");
    (codes "_ExpressionTokenizer._skip_whitespace", codes "86955ec533fb87fc");
    (codes "_ExpressionTokenizer.get_token", codes "85cee52b1ddf56db");
    (codes "_ExpressionParser.__init__", codes "cf34de8af9a4af47");
    (codes "_ExpressionParser._advance", codes "48d9cc1174e45406");
    (codes "_ExpressionParser._expect", codes "6f499aaba7dbb54d");
    (codes "_ExpressionParser.parse", codes "6c9158540af5c2ef");
    (codes "_ExpressionParser._parse_expr", codes "e5084ccd64d5139a");
    (codes "_ExpressionParser._parse_term", codes "d2fe2e3b6ba74a04");
    (codes "_ExpressionParser._parse_power", codes "b128c33851a0be95");
    (codes "_ExpressionParser._parse_unary", codes "b8020c3c02a3a5e2");
    (codes "_ExpressionParser._parse_primary", codes "1e985d9bf601dd1b");
    (codes "_ExpressionParser._parse_function_call", codes "5ad265d592a70772");
    (codes "parse_symbolic_expression", codes "469d7ddb7553bcf4") ].

Definition names_eqb := list_eqb name_eqb.
Definition digest_eqb (a b : list N * list N) : bool := name_eqb (fst a) (fst b) && name_eqb (snd a) (snd b).
Definition raise_eqb (a b : list N * N) : bool := name_eqb (fst a) (fst b) && N.eqb (snd a) (snd b).
Definition class_eqb (a b : list N * list (list N) * list (list N) * list (list N * N)) : bool :=
  let '(n1, m1, s1, r1) := a in
  let '(n2, m2, s2, r2) := b in
  name_eqb n1 n2 && names_eqb m1 m2 && names_eqb s1 s2 && list_eqb raise_eqb r1 r2.

Definition structure_ok : bool :=
  names_eqb src_top_level expected_top && list_eqb class_eqb src_classes expected_classes
  && list_eqb digest_eqb src_method_digests expected_digests.

Lemma structure_current : structure_ok = true.
Proof. vm_compute. reflexivity. Qed.

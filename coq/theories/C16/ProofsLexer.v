(* C16/ProofsLexer.v — the tokenizer reads back the rendered tokens of the model printer (decimal numbers,
   identifiers, one- and two-character operators), hence print -> lex -> parse; and the tail form of the
   reference grammar is the left-recursive grammar. *)
From Coq Require Import ZArith NArith List Bool QArith Lia ZifyBool.
From IRV Require Import Base.Exn Gen.C16Gen C16.Model C16.ProofsParser C16.ProofsParser2.
Import ListNotations.

Definition omap_cons (t : token) (o : option (list token)) : option (list token) :=
  match o with Some ts => Some (t :: ts) | None => None end.

Definition horner (v : N) (ds : list N) : N := fold_left (fun v c => (10 * v + (c - 48))%N) ds v.

(* ------------------------------------------------------------------ character classes *)
Lemma digit_not_space c : is_digit c = true -> is_space c = false.
Proof. unfold is_digit, is_space. lia. Qed.
Lemma idstart_classes c : is_idstart c = true -> is_space c = false /\ is_digit c = false.
Proof. unfold is_idstart, is_alpha, is_digit, is_space. lia. Qed.

(* ------------------------------------------------------------------ decimal digits *)
Lemma horner_app v a b : horner v (a ++ b) = horner (horner v a) b.
Proof. unfold horner. apply fold_left_app. Qed.

Lemma digits_fuel_spec f : forall n acc, (0 < f)%nat -> (n < 2 ^ N.of_nat f)%N ->
  exists ds, ds <> [] /\ digits_fuel f n acc = ds ++ acc /\ forallb is_digit ds = true /\ horner 0 ds = n.
Proof.
  induction f as [|f IH]; intros n acc Hf Hn; [inversion Hf|].
  cbn [digits_fuel].
  assert (Hm : (n mod 10 < 10)%N) by (apply N.mod_lt; discriminate).
  pose proof (N.div_mod' n 10) as DM.
  set (k := (n mod 10)%N) in *. set (q := (n / 10)%N) in *. set (d := (48 + k)%N).
  assert (Hd : is_digit d = true) by (unfold is_digit, d; lia).
  assert (Hd48 : (d - 48 = k)%N) by (unfold d; lia).
  destruct (q =? 0)%N eqn:E.
  - exists [d]. split; [discriminate|]. split; [reflexivity|]. split; [simpl; rewrite Hd; reflexivity|].
    apply N.eqb_eq in E. unfold horner. cbn [fold_left]. rewrite Hd48. lia.
  - apply N.eqb_neq in E.
    assert (Hp : (2 ^ N.of_nat (S f) = 2 * 2 ^ N.of_nat f)%N).
    { rewrite Nat2N.inj_succ, N.pow_succ_r'. reflexivity. }
    assert (Hq : (q < 2 ^ N.of_nat f)%N).
    { apply N.div_lt_upper_bound; [discriminate|]. rewrite Hp in Hn. set (P := (2 ^ N.of_nat f)%N) in *. lia. }
    assert (Hf' : (0 < f)%nat).
    { destruct f; [|lia]. exfalso. simpl in Hq. lia. }
    destruct (IH q (d :: acc) Hf' Hq) as (ds & Hne & Eq & Hall & Hv).
    exists (ds ++ [d]). split; [destruct ds; discriminate|]. split; [rewrite Eq, <- app_assoc; reflexivity|].
    split; [rewrite forallb_app, Hall; simpl; rewrite Hd; reflexivity|].
    rewrite horner_app, Hv. unfold horner. cbn [fold_left]. rewrite Hd48. lia.
Qed.

Lemma digits_spec n : exists d ds, digits n = d :: ds /\ forallb is_digit (d :: ds) = true /\ horner 0 (d :: ds) = n.
Proof.
  unfold digits.
  destruct (digits_fuel_spec (S (N.to_nat (N.log2 n))) n []) as (ds & Hne & Eq & Hall & Hv); [lia| |].
  - rewrite Nat2N.inj_succ, N2Nat.id.
    destruct (N.eq_dec n 0) as [->|Hn0]; [reflexivity|].
    apply N.log2_spec. lia.
  - rewrite app_nil_r in Eq. destruct ds as [|d ds]; [congruence|]. exists d, ds. auto.
Qed.

(* ------------------------------------------------------------------ the tokenizer on rendered tokens *)
Lemma lex_step st c r out st' :
  step st c = Some (out, st') ->
  lex_from st (c :: r) = match lex_from st' r with Some ts => Some (out ++ ts) | None => None end.
Proof. intros H. cbn [lex_from]. rewrite H. reflexivity. Qed.

Lemma lex_num ds : forall v rest, forallb is_digit ds = true ->
  lex_from (LNum v) (ds ++ 32%N :: rest) = omap_cons (TNum (horner v ds)) (lex_from LNone rest).
Proof.
  induction ds as [|c ds IH]; intros v rest H.
  - simpl app. rewrite (lex_step (LNum v) 32%N rest [TNum v] LNone) by reflexivity.
    destruct (lex_from LNone rest); reflexivity.
  - simpl in H. apply andb_prop in H. destruct H as [Hc H].
    simpl app. rewrite (lex_step (LNum v) c _ [] (LNum (10 * v + (c - 48))%N)).
    + rewrite IH by exact H. unfold horner. cbn [fold_left].
      destruct (lex_from LNone rest); reflexivity.
    + unfold step. rewrite Hc. reflexivity.
Qed.

Lemma lex_id cs : forall racc rest, forallb is_idchar cs = true ->
  lex_from (LId racc) (cs ++ 32%N :: rest) = omap_cons (TId (rev racc ++ cs)) (lex_from LNone rest).
Proof.
  induction cs as [|c cs IH]; intros racc rest H.
  - simpl app. rewrite (lex_step (LId racc) 32%N rest [TId (rev racc)] LNone) by reflexivity.
    rewrite app_nil_r. destruct (lex_from LNone rest); reflexivity.
  - simpl in H. apply andb_prop in H. destruct H as [Hc H].
    simpl app. rewrite (lex_step (LId racc) c _ [] (LId (c :: racc))).
    + rewrite IH by exact H. simpl rev. rewrite <- app_assoc. simpl app.
      destruct (lex_from LNone rest); reflexivity.
    + unfold step. rewrite Hc. reflexivity.
Qed.

Definition tok_ok (t : token) : Prop := match t with TId s => valid_ident s = true | _ => True end.

Lemma lex_tok t rest : tok_ok t ->
  lex_from LNone (render_tok t ++ 32%N :: rest) = omap_cons t (lex_from LNone rest).
Proof.
  intros Hok. destruct t as [n|s|o| | |]; cbn [render_tok].
  - destruct (digits_spec n) as (d & ds & Ed & Hall & Hv). rewrite Ed.
    simpl in Hall. apply andb_prop in Hall. destruct Hall as [Hd Hall].
    simpl app. rewrite (lex_step LNone d _ [] (LNum (d - 48)%N)).
    + rewrite lex_num by exact Hall.
      replace (horner (d - 48) ds) with n by (rewrite <- Hv; reflexivity).
      destruct (lex_from LNone rest); reflexivity.
    + unfold step, start. rewrite (digit_not_space d Hd), Hd. reflexivity.
  - simpl in Hok. destruct s as [|c cs]; [discriminate|]. simpl in Hok.
    apply andb_prop in Hok. destruct Hok as [Hc Hcs].
    destruct (idstart_classes c Hc) as [Hsp Hdg].
    simpl app. rewrite (lex_step LNone c _ [] (LId [c])).
    + rewrite lex_id by exact Hcs. destruct (lex_from LNone rest); reflexivity.
    + unfold step, start. rewrite Hsp, Hdg, Hc. reflexivity.
  - destruct o; cbn; destruct (lex_from LNone rest); reflexivity.
  - cbn. destruct (lex_from LNone rest); reflexivity.
  - cbn. destruct (lex_from LNone rest); reflexivity.
  - cbn. destruct (lex_from LNone rest); reflexivity.
Qed.

Lemma lex_render ts : Forall tok_ok ts -> lex (render ts) = Some ts.
Proof.
  unfold lex. induction 1 as [|t ts Ht _ IH]; [reflexivity|].
  cbn [render]. rewrite lex_tok by exact Ht. rewrite IH. reflexivity.
Qed.

Lemma prt_ok e : idents_ok e = true -> Forall tok_ok (prt e).
Proof.
  induction e as [x|z|a IH|f a IH|o a IHa b IHb]; cbn [idents_ok prt]; intros H.
  - constructor; [exact H|constructor].
  - destruct (z <? 0)%Z; repeat constructor.
  - repeat constructor. apply Forall_app. split; [apply IH; exact H|repeat constructor].
  - constructor; [destruct f; reflexivity|]. constructor; [exact I|].
    apply Forall_app. split; [apply IH; exact H|repeat constructor].
  - apply andb_prop in H. destruct H as [Ha Hb].
    destruct (infix_of o).
    + constructor; [exact I|]. apply Forall_app. split; [apply IHa; exact Ha|].
      constructor; [exact I|]. apply Forall_app. split; [apply IHb; exact Hb|repeat constructor].
    + constructor; [destruct o; reflexivity|]. constructor; [exact I|].
      apply Forall_app. split; [apply IHa; exact Ha|].
      constructor; [exact I|]. apply Forall_app. split; [apply IHb; exact Hb|repeat constructor].
Qed.

Theorem print_parse e : idents_ok e = true ->
  exists e', parse_dim (pr e) = Some e' /\ forall s, eval s e' = eval s e.
Proof.
  intros H. exists (norm e). unfold parse_dim, pr.
  rewrite (lex_render _ (prt_ok e H)). apply print_parse_tokens.
Qed.

(* ------------------------------------------------------------------ tail form = left recursion *)
(* The textbook left-recursive grammar of a left-associative level:  term -> unary | term op unary. *)
Inductive lr_term : list token -> expr -> Prop :=
| LRu ts e : d_unary ts e -> lr_term ts e
| LRop ts1 ts2 o mk a b : mulop o = Some mk -> lr_term ts1 a -> d_unary ts2 b -> lr_term (ts1 ++ TOp o :: ts2) (mk a b).

Lemma tail_to_lr a ts e : d_term_tail a ts e -> forall pre, lr_term pre a -> lr_term (pre ++ ts) e.
Proof.
  induction 1 as [a|a o mk ts1 ts2 b e Hm Hu Ht IH]; intros pre Hl.
  - rewrite app_nil_r. exact Hl.
  - replace (pre ++ TOp o :: ts1 ++ ts2) with ((pre ++ TOp o :: ts1) ++ ts2)
      by (rewrite <- app_assoc; reflexivity).
    apply IH. econstructor; eassumption.
Qed.

Lemma lr_to_tail ts e : lr_term ts e ->
  exists ts1 ts2 a, ts = ts1 ++ ts2 /\ d_unary ts1 a /\
    forall rest e', d_term_tail e rest e' -> d_term_tail a (ts2 ++ rest) e'.
Proof.
  induction 1 as [ts e Hu|ts1 ts2 o mk a b Hm Hl IH Hu].
  - exists ts, [], e. split; [rewrite app_nil_r; reflexivity|]. split; [exact Hu|]. intros rest e' H. exact H.
  - destruct IH as (u1 & u2 & a0 & E & Hu0 & K).
    exists u1, (u2 ++ TOp o :: ts2), a0. split; [rewrite E, <- app_assoc; reflexivity|].
    split; [exact Hu0|]. intros rest e' H. rewrite <- app_assoc. apply K. simpl. econstructor; eassumption.
Qed.

Theorem term_lr_iff ts e : d_term ts e <-> lr_term ts e.
Proof.
  split.
  - intros D. inversion D as [ts1 ts2 a e0 Hu Ht]; subst. eapply tail_to_lr; [exact Ht|]. constructor. exact Hu.
  - intros L. destruct (lr_to_tail _ _ L) as (ts1 & ts2 & a & E & Hu & K). subst ts.
    econstructor; [exact Hu|]. rewrite <- (app_nil_r ts2). apply K. constructor.
Qed.

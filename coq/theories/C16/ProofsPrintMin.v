(* C16/ProofsPrintMin.v — the minimal-parenthesis printer is read back EXACTLY: parse (print e) = norm e, and
   norm e = e for trees without negative literals.  Covers the whole operator set with the precedence and
   associativity corner cases (a - (b - c), -(a ** b), (-a) ** b, a ** -b, a // b // c vs a // (b // c), ...). *)
From Coq Require Import ZArith NArith List Bool QArith Lia.
From IRV Require Import Base.Exn Gen.C16Gen C16.Model C16.ProofsParser C16.ProofsParser2 C16.ProofsLexer.
Import ListNotations.

Definition d_at (l : nat) (ts : list token) (e : expr) : Prop :=
  match l with
  | 0 => d_expr ts e
  | 1 => d_term ts e
  | 2 => d_unary ts e
  | 3 => d_power ts e
  | _ => d_primary ts e
  end%nat.

Lemma d_step l ts e : d_at (S l) ts e -> d_at l ts e.
Proof.
  destruct l as [|[|[|[|l]]]]; simpl; intros D.
  - apply lift_expr_t. exact D.
  - apply lift_term_u. exact D.
  - apply DUpow. exact D.
  - apply DPprim. exact D.
  - exact D.
Qed.

Lemma d_lift l lv ts e : (l <= lv)%nat -> d_at lv ts e -> d_at l ts e.
Proof.
  intros H. induction H as [|m H IH]; intros D; [exact D|]. apply IH. apply d_step. exact D.
Qed.

Lemma d_at_primary l ts e : d_primary ts e -> d_at l ts e.
Proof.
  intros D. destruct (Nat.le_gt_cases l 4) as [H|H]; [apply (d_lift l 4 _ _ H D)|].
  destruct l as [|[|[|[|l]]]]; try lia. exact D.
Qed.

Lemma d_at_expr l ts e : d_at l ts e -> d_expr ts e.
Proof. intros D. apply (d_lift 0 l); [lia|exact D]. Qed.

(* appending one more `op operand` to a left-associative level *)
Lemma expr_tail_snoc a ts e : d_expr_tail a ts e -> forall o mk ts2 b,
  addop o = Some mk -> d_term ts2 b -> d_expr_tail a (ts ++ TOp o :: ts2) (mk e b).
Proof.
  induction 1 as [a|a o0 mk0 ts1 ts3 b0 e Hm Ht Htl IH]; intros o mk ts2 b Ho Hb.
  - simpl. rewrite <- (app_nil_r ts2). econstructor; [exact Ho|exact Hb|constructor].
  - simpl. rewrite <- app_assoc. econstructor; [exact Hm|exact Ht|]. apply IH; assumption.
Qed.
Lemma expr_snoc ts a o mk ts2 b :
  d_expr ts a -> addop o = Some mk -> d_term ts2 b -> d_expr (ts ++ TOp o :: ts2) (mk a b).
Proof.
  intros D Ho Hb. inversion D as [t1 t2 a0 e0 Dt Dtl]; subst.
  rewrite <- app_assoc. econstructor; [exact Dt|]. eapply expr_tail_snoc; eassumption.
Qed.
Lemma term_tail_snoc a ts e : d_term_tail a ts e -> forall o mk ts2 b,
  mulop o = Some mk -> d_unary ts2 b -> d_term_tail a (ts ++ TOp o :: ts2) (mk e b).
Proof.
  induction 1 as [a|a o0 mk0 ts1 ts3 b0 e Hm Ht Htl IH]; intros o mk ts2 b Ho Hb.
  - simpl. rewrite <- (app_nil_r ts2). econstructor; [exact Ho|exact Hb|constructor].
  - simpl. rewrite <- app_assoc. econstructor; [exact Hm|exact Ht|]. apply IH; assumption.
Qed.
Lemma term_snoc ts a o mk ts2 b :
  d_term ts a -> mulop o = Some mk -> d_unary ts2 b -> d_term (ts ++ TOp o :: ts2) (mk a b).
Proof.
  intros D Ho Hb. inversion D as [t1 t2 a0 e0 Dt Dtl]; subst.
  rewrite <- app_assoc. econstructor; [exact Dt|]. eapply term_tail_snoc; eassumption.
Qed.

Definition pm_body (e : expr) : list token :=
  match e with
  | ESym x => [TId x]
  | EInt z => if (z <? 0)%Z then [TOp OMinus; TNum (Z.to_N (- z))] else [TNum (Z.to_N z)]
  | ENeg a => TOp OMinus :: pm 2 a
  | EUn FFloor (EBin BDiv a b) => pm 1 a ++ TOp ODSlash :: pm 2 b
  | EUn f a => TId (fn1_name f) :: TLP :: pm 0 a ++ [TRP]
  | EBin o a b =>
      match o with
      | BAdd => pm 0 a ++ TOp OPlus :: pm 1 b
      | BSub => pm 0 a ++ TOp OMinus :: pm 1 b
      | BMul => pm 1 a ++ TOp OStar :: pm 2 b
      | BDiv => pm 1 a ++ TOp OSlash :: pm 2 b
      | BPow => pm 4 a ++ TOp OPow :: pm 2 b
      | BMod | BMax | BMin => TId (call_name o) :: TLP :: pm 0 a ++ TComma :: pm 0 b ++ [TRP]
      end
  end.

Lemma pm_unfold l e : pm l e = if (lvl_of e <? l)%nat then TLP :: pm_body e ++ [TRP] else pm_body e.
Proof. destruct e; reflexivity. Qed.

Lemma call1 f ts a : d_expr ts a -> d_primary (TId (fn1_name f) :: TLP :: ts ++ [TRP]) (EUn f a).
Proof.
  intros D. change (ts ++ [TRP]) with (ts ++ [] ++ [TRP]).
  eapply DPcall; [apply lookup_fn1|exact D|constructor|reflexivity].
Qed.

(* the body of a tree derives at the tree's own level *)
Lemma pm_sound n : forall e, (esize e < n)%nat -> forall l, d_at l (pm l e) (norm e).
Proof.
  induction n as [|n IH]; intros e Hn l; [lia|].
  assert (Hbody : d_at (lvl_of e) (pm_body e) (norm e)).
  { destruct e as [x|z|a|f a|o a b]; cbn [esize] in Hn.
    - simpl. constructor.
    - cbn [lvl_of pm_body norm]. destruct (z <? 0)%Z eqn:E; cbn [d_at].
      + apply DUneg.
        replace (- z)%Z with (Z.of_N (Z.to_N (- z))) at 2 by (apply Z.ltb_lt in E; rewrite Z2N.id; lia).
        apply lift_unary. constructor.
      + replace z with (Z.of_N (Z.to_N z)) at 2 by (apply Z.ltb_ge in E; rewrite Z2N.id; lia). constructor.
    - cbn [lvl_of pm_body norm d_at]. apply DUneg. exact (IH a ltac:(lia) 2%nat).
    - assert (Hcall : d_at 4 (TId (fn1_name f) :: TLP :: pm 0 a ++ [TRP]) (norm (EUn f a))).
      { cbn [norm d_at]. apply call1. exact (IH a ltac:(lia) 0%nat). }
      destruct f; try exact Hcall.
      destruct a as [x|z|a'|f' a'|o a1 a2]; try exact Hcall.
      destruct o; try exact Hcall.
      (* floor(a1 / a2) printed a1 // a2 *)
      cbn [lvl_of pm_body norm d_at]. cbn [esize] in Hn.
      apply (term_snoc _ (norm a1) ODSlash EFloorDiv); [exact (IH a1 ltac:(lia) 1%nat)|reflexivity|exact (IH a2 ltac:(lia) 2%nat)].
    - cbn [esize] in Hn.
      assert (Ha : forall l, d_at l (pm l a) (norm a)) by (intros; apply IH; lia).
      assert (Hb : forall l, d_at l (pm l b) (norm b)) by (intros; apply IH; lia).
      destruct o; cbn [lvl_of pm_body norm d_at].
      + apply (expr_snoc _ (norm a) OPlus (EBin BAdd)); [apply (Ha 0%nat)|reflexivity|apply (Hb 1%nat)].
      + apply (expr_snoc _ (norm a) OMinus (EBin BSub)); [apply (Ha 0%nat)|reflexivity|apply (Hb 1%nat)].
      + apply (term_snoc _ (norm a) OStar (EBin BMul)); [apply (Ha 1%nat)|reflexivity|apply (Hb 2%nat)].
      + apply (term_snoc _ (norm a) OSlash (EBin BDiv)); [apply (Ha 1%nat)|reflexivity|apply (Hb 2%nat)].
      + change (TId (call_name BMod) :: TLP :: pm 0 a ++ TComma :: pm 0 b ++ [TRP])
          with (TId (call_name BMod) :: TLP :: pm 0 a ++ (TComma :: pm 0 b ++ []) ++ [TRP]) || idtac.
        replace (pm 0 a ++ TComma :: pm 0 b ++ [TRP]) with (pm 0 a ++ (TComma :: pm 0 b ++ []) ++ [TRP])
          by (simpl; rewrite app_nil_r; reflexivity).
        eapply DPcall; [vm_compute; reflexivity|apply (Ha 0%nat)|eapply DAcons; [apply (Hb 0%nat)|constructor]|reflexivity].
      + apply DPpow; [apply (Ha 4%nat)|apply (Hb 2%nat)].
      + replace (pm 0 a ++ TComma :: pm 0 b ++ [TRP]) with (pm 0 a ++ (TComma :: pm 0 b ++ []) ++ [TRP])
          by (simpl; rewrite app_nil_r; reflexivity).
        eapply DPcall; [vm_compute; reflexivity|apply (Ha 0%nat)|eapply DAcons; [apply (Hb 0%nat)|constructor]|reflexivity].
      + replace (pm 0 a ++ TComma :: pm 0 b ++ [TRP]) with (pm 0 a ++ (TComma :: pm 0 b ++ []) ++ [TRP])
          by (simpl; rewrite app_nil_r; reflexivity).
        eapply DPcall; [vm_compute; reflexivity|apply (Ha 0%nat)|eapply DAcons; [apply (Hb 0%nat)|constructor]|reflexivity]. }
  rewrite pm_unfold. destruct (lvl_of e <? l)%nat eqn:E.
  - apply d_at_primary. apply DPparen. eapply d_at_expr. exact Hbody.
  - apply Nat.ltb_ge in E. eapply d_lift; [exact E|exact Hbody].
Qed.

Lemma pm_tok_ok n : forall e, (esize e < n)%nat -> idents_ok e = true -> forall l, Forall tok_ok (pm l e).
Proof.
  induction n as [|n IH]; intros e Hn Hok l; [lia|].
  assert (Hbody : Forall tok_ok (pm_body e)).
  { destruct e as [x|z|a|f a|o a b]; cbn [esize idents_ok] in *.
    - repeat constructor. exact Hok.
    - simpl. destruct (z <? 0)%Z; repeat constructor.
    - simpl. constructor; [exact I|]. apply IH; [lia|exact Hok].
    - assert (Hcall : Forall tok_ok (TId (fn1_name f) :: TLP :: pm 0 a ++ [TRP])).
      { constructor; [destruct f; reflexivity|]. constructor; [exact I|].
        apply Forall_app. split; [apply IH; [lia|exact Hok]|repeat constructor]. }
      destruct f; try exact Hcall. destruct a as [x|z|a'|f' a'|o a1 a2]; try exact Hcall.
      destruct o; try exact Hcall. cbn [pm_body idents_ok esize] in *.
      apply andb_prop in Hok. destruct Hok as [H1 H2].
      apply Forall_app. split; [apply IH; [lia|exact H1]|]. constructor; [exact I|]. apply IH; [lia|exact H2].
    - apply andb_prop in Hok. destruct Hok as [H1 H2].
      assert (Ha : forall l, Forall tok_ok (pm l a)) by (intros; apply IH; [lia|exact H1]).
      assert (Hb : forall l, Forall tok_ok (pm l b)) by (intros; apply IH; [lia|exact H2]).
      destruct o; cbn [pm_body];
        try (apply Forall_app; split; [apply Ha|constructor; [exact I|apply Hb]]);
        (constructor; [reflexivity|]; constructor; [exact I|]; apply Forall_app; split; [apply Ha|];
         constructor; [exact I|]; apply Forall_app; split; [apply Hb|repeat constructor]). }
  rewrite pm_unfold. destruct (lvl_of e <? l)%nat; [|exact Hbody].
  constructor; [exact I|]. apply Forall_app. split; [exact Hbody|repeat constructor].
Qed.

Lemma norm_id e : nonneg_lits e = true -> norm e = e.
Proof.
  induction e as [x|z|a IH|f a IH|o a IHa b IHb]; cbn [nonneg_lits norm]; intros H.
  - reflexivity.
  - apply Z.leb_le in H. destruct (z <? 0)%Z eqn:E; [apply Z.ltb_lt in E; lia|reflexivity].
  - rewrite IH by exact H. reflexivity.
  - rewrite IH by exact H. reflexivity.
  - apply andb_prop in H. destruct H as [H1 H2]. rewrite IHa, IHb by assumption. reflexivity.
Qed.

(* tokens, for every tree and every context level *)
Theorem print_min_tokens e : parse_tokens (pm 0 e) = Some (norm e).
Proof. apply parser_complete. apply (pm_sound (S (esize e)) e (Nat.lt_succ_diag_r _) 0%nat). Qed.

(* characters *)
Theorem print_min_parse e : idents_ok e = true ->
  parse_dim (prmin e) = Some (norm e) /\ (forall s, eval s (norm e) = eval s e) /\
  (nonneg_lits e = true -> parse_dim (prmin e) = Some e).
Proof.
  intros H.
  assert (E : parse_dim (prmin e) = Some (norm e)).
  { unfold parse_dim, prmin. rewrite (lex_render _ (pm_tok_ok (S (esize e)) e (Nat.lt_succ_diag_r _) H 0%nat)).
    apply print_min_tokens. }
  split; [exact E|]. split; [intros; apply eval_norm|]. intros Hn. rewrite E, (norm_id e Hn). reflexivity.
Qed.

(* the fully parenthesised printer, exact form *)
Theorem print_parse_exact e : idents_ok e = true ->
  parse_dim (pr e) = Some (norm e) /\ (nonneg_lits e = true -> parse_dim (pr e) = Some e).
Proof.
  intros H.
  assert (E : parse_dim (pr e) = Some (norm e)).
  { unfold parse_dim, pr. rewrite (lex_render _ (prt_ok e H)). apply print_parse_tokens. }
  split; [exact E|]. intros Hn. rewrite E, (norm_id e Hn). reflexivity.
Qed.

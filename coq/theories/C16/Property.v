From Coq Require Import ZArith NArith List Bool QArith.
From IRV Require Import Base.Exn Gen.C16Gen C16.Model.
Import ListNotations.

Theorem C16_placeholder : parse_dim [45;78;42;42;50]%N = Some (ENeg (EBin BPow (ESym [78%N]) (EInt 2))).
Proof. vm_compute. reflexivity. Qed.
Print Assumptions C16_placeholder.

(* C16/Property.v — symbolic dimensions compute, print and re-parse with integer semantics.
   ONLY the property theorems (proofs in ProofsEval.v, ProofsParser.v, ProofsParser2.v, ProofsLexer.v), each
   followed by Print Assumptions.  The model (C16/Model.v) is the tokenizer + recursive-descent parser of
   onnx_ir/_symbolic_shapes.py and the constructor trees the SymbolicDim operators ask SymPy to build; the
   function table and the operator sets come from Gen/C16Gen.v, regenerated from the source on every run. *)
From Coq Require Import ZArith NArith List Bool QArith Qround.
From IRV Require Import Base.Exn Gen.C16Gen C16.Model C16.ProofsEval C16.ProofsParser C16.ProofsParser2 C16.ProofsLexer C16.ProofsStructure C16.ProofsPrintMin Gen.C16OpsGen C16.Ops C16.ProofsOps.
Import ListNotations.

(* The operator sets of every precedence level, the shape of the descent (which _parse_* calls which), the
   tokenizer's character tests and the assumptions put on symbols, as read from the source text now, are the
   ones the model implements. *)
Theorem C16_tables_current : tables_ok = true /\ descent_ok = true.
Proof. exact tables_current. Qed.
Print Assumptions C16_tables_current.

(* The parser source has the structure the model describes: the same classes, methods, state variables
   (tokenizer: text/pos/length; parser: tokenizer/text/current_token) and the same number of rejection sites
   per method.  Fail-closed: a new state variable or `raise` in the parser breaks this obligation. *)
Theorem C16_parser_structure_current : structure_ok = true.
Proof. exact structure_current. Qed.
Print Assumptions C16_parser_structure_current.

(* Every function name the printed forms use (floor, ceiling, Abs, sign, sqrt, Mod, Max, Min) is in
   _ALLOWED_FUNCTIONS with the right meaning, and every entry of the table is a constructor of the model. *)
Theorem C16_function_table_covers :
  (forall f, lookup_fn (fn1_name f) = Some (K1 f)) /\
  lookup_fn n_Mod = Some KMod /\ lookup_fn n_Max = Some KMax /\ lookup_fn n_Min = Some KMin /\
  forallb (fun kv => is_some (sympy_fn (snd kv))) allowed_functions = true.
Proof. exact function_table_covers. Qed.
Print Assumptions C16_function_table_covers.

(* The parser accepts exactly the token strings of the documented grammar and gives each the tree of the
   standard reading: '+ -' and '* / // %' left-associative, '**' right-associative and binding tighter than
   unary minus, `//` = floor of the quotient, `%` = Mod, functions from the table. *)
Theorem C16_parser_sound_complete :
  forall ts e, parse_tokens ts = Some e <-> derives_ref ts e.
Proof. exact parser_sound_complete. Qed.
Print Assumptions C16_parser_sound_complete.

Example C16_ex_neg_pow :   (* -N**2 is -(N**2) *)
  parse_dim [45; 78; 42; 42; 50]%N = Some (ENeg (EBin BPow (ESym [78%N]) (EInt 2))).
Proof. vm_compute. reflexivity. Qed.
Example C16_ex_left_assoc :   (* N - M - K is (N - M) - K ;  N // M * K is (N // M) * K *)
  parse_dim [78; 45; 77; 45; 75]%N = Some (EBin BSub (EBin BSub (ESym [78%N]) (ESym [77%N])) (ESym [75%N])) /\
  parse_dim [78; 47; 47; 77; 42; 75]%N = Some (EBin BMul (EFloorDiv (ESym [78%N]) (ESym [77%N])) (ESym [75%N])).
Proof. split; vm_compute; reflexivity. Qed.
Example C16_ex_pow_right_assoc :   (* 2**3**2 is 2**(3**2) ; 2**-1 *)
  parse_dim [50; 42; 42; 51; 42; 42; 50]%N = Some (EBin BPow (EInt 2) (EBin BPow (EInt 3) (EInt 2))) /\
  parse_dim [50; 42; 42; 45; 49]%N = Some (EBin BPow (EInt 2) (ENeg (EInt 1))).
Proof. split; vm_compute; reflexivity. Qed.

(* The reference grammar has one tree per token string. *)
Theorem C16_reference_unambiguous :
  forall ts e1 e2, derives_ref ts e1 -> derives_ref ts e2 -> e1 = e2.
Proof. exact derives_ref_deterministic. Qed.
Print Assumptions C16_reference_unambiguous.

(* The iteration reading `x (op x)*` folded to the left is the textbook left-recursive grammar. *)
Theorem C16_reference_is_left_recursive :
  forall ts e, d_term ts e <-> lr_term ts e.
Proof. exact term_lr_iff. Qed.
Print Assumptions C16_reference_is_left_recursive.

(* The parser always terminates with a tree or a rejection: the fuel `number of tokens + 1` that
   parse_tokens gives it is never exhausted (so None means "raises"). *)
Theorem C16_parser_total : forall ts, parse_fuel (S (length ts)) ts <> PFuel.
Proof. exact parser_total. Qed.
Print Assumptions C16_parser_total.

(* Partial bindings: substituting sigma1 and later evaluating under sigma2 is evaluating under both. *)
Theorem C16_partial_consistent :
  forall s1 s2 e, eval s2 (subst s1 e) = eval (s1 ++ s2) e.
Proof. exact partial_consistent. Qed.
Print Assumptions C16_partial_consistent.

Example C16_ex_partial :   (* (N + M) // 2 with N := 7 first, then M := 4 *)
  let e := EFloorDiv (EBin BAdd (ESym [78%N]) (ESym [77%N])) (EInt 2) in
  subst [([78%N], 7%Z)] e = EFloorDiv (EBin BAdd (EInt 7) (ESym [77%N])) (EInt 2) /\
  eval_int [([77%N], 4%Z)] (subst [([78%N], 7%Z)] e) = Some 5%Z.
Proof. split; vm_compute; reflexivity. Qed.

(* Integer semantics: on integer operands the trees built for //, %, ceil, trunc, min, max, +, -, *, neg
   evaluate to Python's integer results (floor division and modulo with the sign of the divisor; trunc toward
   zero as sign(x) * floor|x|; ceil x = -floor(-x)); floor and ceiling of any exact value are Qfloor / -Qfloor(-x). *)
Theorem C16_eval_integer :
  forall s a b x y, isZ (eval s a) x -> isZ (eval s b) y ->
    isZ (eval s (EBin BAdd a b)) (x + y) /\ isZ (eval s (EBin BSub a b)) (x - y) /\
    isZ (eval s (EBin BMul a b)) (x * y) /\ isZ (eval s (ENeg a)) (- x) /\
    isZ (eval s (EBin BMax a b)) (Z.max x y) /\ isZ (eval s (EBin BMin a b)) (Z.min x y) /\
    isZ (eval s (EUn FFloor a)) x /\ isZ (eval s (EUn FCeil a)) x /\
    (y <> 0%Z ->
       isZ (eval s (EFloorDiv a b)) (x / y) /\ isZ (eval s (EBin BMod a b)) (x mod y) /\
       isZ (eval s (EUn FCeil (EBin BDiv a b))) (- ((- x) / y)) /\
       isZ (eval s (ETrunc (EBin BDiv a b))) (Z.quot x y)).
Proof.
  intros s a b x y Ha Hb. repeat split;
    eauto using isZ_add, isZ_sub, isZ_mul, isZ_neg, isZ_max, isZ_min, isZ_round_id,
                isZ_floordiv, isZ_mod, isZ_ceildiv, isZ_truncdiv.
Qed.
Print Assumptions C16_eval_integer.

(* Exact integer powers: x ** y is Z.pow for y >= 0 and the exact reciprocal 1 / x ** k for y = -k, x <> 0. *)
Theorem C16_eval_integer_pow :
  forall s a b x, isZ (eval s a) x ->
    (forall y, isZ (eval s b) y -> (0 <= y)%Z -> isZ (eval s (EBin BPow a b)) (x ^ y)) /\
    (forall k, isZ (eval s b) (- Z.pos k) -> x <> 0%Z ->
       exists q, eval s (EBin BPow a b) = Some q /\ q == / inject_Z (x ^ Z.pos k)).
Proof.
  intros s a b x Ha. split; [intros y Hb Hy; eapply isZ_pow; eassumption|].
  intros k Hb Hx. eapply eval_pow_neg; eassumption.
Qed.
Print Assumptions C16_eval_integer_pow.

Example C16_ex_pow : (* (-3)**3 = -27 ; 2**-2 = 1/4 ; 0**0 = 1 ; 0**-1 undefined *)
  eval_int [] (EBin BPow (EInt (-3)) (EInt 3)) = Some (-27)%Z /\
  eval [] (EBin BPow (EInt 2) (EInt (-2))) = Some (1 # 4) /\
  eval_int [] (EBin BPow (EInt 0) (EInt 0)) = Some 1%Z /\
  eval [] (EBin BPow (EInt 0) (EInt (-1))) = None.
Proof. repeat split; vm_compute; reflexivity. Qed.

(* A residual has exactly the unbound symbols, and evaluation depends only on the symbols that occur:
   what evaluate(partial) returns can be bound later in any order, with any additional bindings. *)
Theorem C16_residual_symbols :
  forall s e, free_syms (subst s e) =
    filter (fun x => match lookup s x with None => true | Some _ => false end) (free_syms e).
Proof. exact free_syms_subst. Qed.
Print Assumptions C16_residual_symbols.

Theorem C16_eval_depends_on_free_symbols :
  forall s1 s2 e, (forall x, In x (free_syms e) -> lookup s1 x = lookup s2 x) -> eval s1 e = eval s2 e.
Proof. exact eval_ext. Qed.
Print Assumptions C16_eval_depends_on_free_symbols.

Theorem C16_eval_rounding :
  forall s e q, eval s e = Some q ->
    eval s (EUn FFloor e) = Some (inject_Z (Qfloor q)) /\
    eval s (EUn FCeil e) = Some (inject_Z (- Qfloor (- q))) /\
    exists r, eval s (ETrunc e) = Some r /\ r == inject_Z (Z.sgn (Qnum q) * Qfloor (Qabs.Qabs q)).
Proof.
  intros s e q H. split; [apply eval_floor; exact H|]. split; [apply eval_ceil; exact H|].
  apply eval_trunc. exact H.
Qed.
Print Assumptions C16_eval_rounding.

Example C16_ex_integer :   (* -7 // 2 = -4, -7 % 2 = 1, 7 % -2 = -1, trunc(-7/2) = -3, ceil(7/2) = 4 *)
  eval_int [] (EFloorDiv (EInt (-7)) (EInt 2)) = Some (-4)%Z /\
  eval_int [] (EBin BMod (EInt (-7)) (EInt 2)) = Some 1%Z /\
  eval_int [] (EBin BMod (EInt 7) (EInt (-2))) = Some (-1)%Z /\
  eval_int [] (ETrunc (EBin BDiv (EInt (-7)) (EInt 2))) = Some (-3)%Z /\
  eval_int [] (EUn FCeil (EBin BDiv (EInt 7) (EInt 2))) = Some 4%Z.
Proof. repeat split; vm_compute; reflexivity. Qed.

(* Print -> parse: the text the model printer writes for a tree (fully parenthesised, SymPy's function
   names) is tokenized and parsed back to a tree with the same value under EVERY binding. *)
Theorem C16_print_parse :
  forall e, idents_ok e = true ->
    exists e', parse_dim (pr e) = Some e' /\ forall s, eval s e' = eval s e.
Proof. exact print_parse. Qed.
Print Assumptions C16_print_parse.

Example C16_ex_print_parse :   (* ceil(N/2) and trunc((N - M)/2): the two forms that could not be read back *)
  parse_dim (pr (EUn FCeil (EBin BDiv (ESym [78%N]) (EInt 2)))) = Some (EUn FCeil (EBin BDiv (ESym [78%N]) (EInt 2))) /\
  let t := ETrunc (EBin BDiv (EBin BSub (ESym [78%N]) (ESym [77%N])) (EInt 2)) in parse_dim (pr t) = Some t.
Proof. split; vm_compute; reflexivity. Qed.

(* Print -> parse is the IDENTITY on trees (up to writing a negative literal as a negation; exactly the identity on
   trees without negative literals), for the fully parenthesised printer ... *)
Theorem C16_print_parse_exact :
  forall e, idents_ok e = true ->
    parse_dim (pr e) = Some (norm e) /\ (nonneg_lits e = true -> parse_dim (pr e) = Some e).
Proof. exact print_parse_exact. Qed.
Print Assumptions C16_print_parse_exact.

(* ... and for the MINIMAL-parenthesis printer (parentheses only where precedence / associativity need them,
   floor(a / b) written a // b) over the whole operator set: + - * / // Mod ** unary minus floor ceiling Abs sign
   sqrt Max Min.  So every tree has a text in the documented grammar that the parser reads back to it, and the
   parser's precedence and associativity are exactly the ones the printer relies on. *)
Theorem C16_print_min_parse :
  forall e, idents_ok e = true ->
    parse_dim (prmin e) = Some (norm e) /\ (forall s, eval s (norm e) = eval s e) /\
    (nonneg_lits e = true -> parse_dim (prmin e) = Some e).
Proof. exact print_min_parse. Qed.
Print Assumptions C16_print_min_parse.

Example C16_ex_print_min_corner_cases :
  let a := ESym [97%N] in let b := ESym [98%N] in let c := ESym [99%N] in
  let txt (l : list N) := l in
  (* a - (b - c) ; (a - b) - c *)
  prmin (EBin BSub a (EBin BSub b c)) = [97; 32; 45; 32; 40; 32; 98; 32; 45; 32; 99; 32; 41; 32]%N /\
  prmin (EBin BSub (EBin BSub a b) c) = [97; 32; 45; 32; 98; 32; 45; 32; 99; 32]%N /\
  (* -(a ** b) is "- a ** b" ; (-a) ** b keeps its parentheses ; a ** -b needs none *)
  prmin (ENeg (EBin BPow a b)) = [45; 32; 97; 32; 42; 42; 32; 98; 32]%N /\
  prmin (EBin BPow (ENeg a) b) = [40; 32; 45; 32; 97; 32; 41; 32; 42; 42; 32; 98; 32]%N /\
  prmin (EBin BPow a (ENeg b)) = [97; 32; 42; 42; 32; 45; 32; 98; 32]%N /\
  (* a // b // c  vs  a // (b // c) *)
  prmin (EFloorDiv (EFloorDiv a b) c) = [97; 32; 47; 47; 32; 98; 32; 47; 47; 32; 99; 32]%N /\
  prmin (EFloorDiv a (EFloorDiv b c)) = [97; 32; 47; 47; 32; 40; 32; 98; 32; 47; 47; 32; 99; 32; 41; 32]%N /\
  forallb (fun e => oexpr_eqb (parse_dim (prmin e)) (Some e))
    [EBin BSub a (EBin BSub b c); EBin BSub (EBin BSub a b) c; ENeg (EBin BPow a b); EBin BPow (ENeg a) b;
     EBin BPow a (ENeg b); EFloorDiv (EFloorDiv a b) c; EFloorDiv a (EFloorDiv b c);
     EBin BPow (EBin BPow a b) c; EBin BPow a (EBin BPow b c); EBin BMul a (EBin BAdd b c);
     EBin BMod (ENeg a) (EBin BMax b (EUn FCeil (EBin BDiv a c))); ETrunc (EBin BDiv (EBin BSub a b) (EInt 2))] = true.
Proof. repeat split; vm_compute; reflexivity. Qed.

(* The arithmetic methods of SymbolicDim, TRANSLATED statement by statement from _core.py on every run
   (Gen/C16OpsGen.v: op_<method>_int / _dim, reflected and unary methods), build expressions whose exact value is
   Python's arithmetic on the operands' values: +, -, * and their reflected forms, // = Z.div and % = Z.modulo
   (sign of the divisor), / = the exact rational quotient (int branch Rational(1, k) * expr included), reflected
   subtraction and true division with the operands in the right order, neg, and floor/ceil/trunc of an integer.
   An edit of any branch (e.g. __truediv__ building a floor division) changes the generated definition and this
   theorem no longer checks. *)
Theorem C16_operator_methods :
  forall s a b x y k, isZ (eval s a) x -> isZ (eval s b) y ->
    (* dim op dim *)
    (isZ (eval s (op_add_dim a b)) (x + y) /\ isZ (eval s (op_sub_dim a b)) (x - y) /\
     isZ (eval s (op_mul_dim a b)) (x * y) /\
     (y <> 0%Z -> isZ (eval s (op_floordiv_dim a b)) (x / y) /\ isZ (eval s (op_mod_dim a b)) (x mod y) /\
                  isQ (eval s (op_truediv_dim a b)) (inject_Z x / inject_Z y))) /\
    (* dim op int and int op dim *)
    (isZ (eval s (op_add_int a k)) (x + k) /\ isZ (eval s (op_radd_int a k)) (k + x) /\
     isZ (eval s (op_sub_int a k)) (x - k) /\ isZ (eval s (op_rsub_int a k)) (k - x) /\
     isZ (eval s (op_mul_int a k)) (x * k) /\ isZ (eval s (op_rmul_int a k)) (k * x) /\
     (k <> 0%Z -> isZ (eval s (op_floordiv_int a k)) (x / k) /\ isZ (eval s (op_mod_int a k)) (x mod k) /\
                  isQ (eval s (op_truediv_int a k)) (inject_Z x / inject_Z k)) /\
     (x <> 0%Z -> isQ (eval s (op_rtruediv_int a k)) (inject_Z k / inject_Z x))) /\
    (* unary *)
    (isZ (eval s (op_neg a)) (- x) /\ isZ (eval s (op_floor a)) x /\ isZ (eval s (op_ceil a)) x /\
     isZ (eval s (op_trunc a)) x) /\
    (* math.floor / math.ceil / math.trunc of a quotient of dimensions *)
    (y <> 0%Z -> isZ (eval s (op_floor (op_truediv_dim a b))) (x / y) /\
                 isZ (eval s (op_ceil (op_truediv_dim a b))) (- ((- x) / y)) /\
                 isZ (eval s (op_trunc (op_truediv_dim a b))) (Z.quot x y)).
Proof.
  intros s a b x y k Ha Hb. split; [exact (ops_dim s a b x y Ha Hb)|].
  split; [exact (ops_int s a x Ha k)|]. split; [exact (ops_unary s a x Ha)|].
  intros Hy. exact (ops_round_quotient s a b x y Ha Hb Hy).
Qed.
Print Assumptions C16_operator_methods.

Example C16_ex_operator_methods :   (* (N - 9) / 2 at N = 2 is -7/2 ; 3 - N ; 7 / N ; trunc((N - 9) / 2) = -3 *)
  let n := ESym [78%N] in let s := [([78%N], 2%Z)] in
  eval s (op_truediv_int (op_sub_int n 9) 2) = Some (-7 # 2) /\
  eval_int s (op_rsub_int n 3) = Some 1%Z /\ eval s (op_rtruediv_int n 7) = Some (7 # 2) /\
  eval_int s (op_trunc (op_truediv_int (op_sub_int n 9) 2)) = Some (-3)%Z /\
  to_expr (KBin BbSub (KInt 3) (KSym [78%N])) = EBin BSub (EInt 3) n.
Proof. repeat split; vm_compute; reflexivity. Qed.

(* _ALLOWED_FUNCTIONS, every key (both spellings), denotes the operator of its name: the extracted table is exactly
   max/Max -> Max, min/Min -> Min, floor, ceiling, Abs, sign, sqrt, mod/Mod -> Mod; so every name the printers emit
   (and its lower-case alias) parses back to the same operator. *)
Theorem C16_function_table_exact :
  map (fun kv => (fst kv, lookup_fn (fst kv))) allowed_functions =
  [ ([109; 97; 120]%N, Some KMax); (n_Max, Some KMax); ([109; 105; 110]%N, Some KMin); (n_Min, Some KMin);
    (n_floor, Some (K1 FFloor)); (n_ceiling, Some (K1 FCeil)); (n_Abs, Some (K1 FAbs)); (n_sign, Some (K1 FSign));
    (n_sqrt, Some (K1 FSqrt)); ([109; 111; 100]%N, Some KMod); (n_Mod, Some KMod) ].
Proof. exact function_table_exact. Qed.
Print Assumptions C16_function_table_exact.
